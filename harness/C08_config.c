/* C08 (+ C02 memory safety of the option value parsers): configuration values are parsed to the
 * documented settings with safe fallbacks; `conf` output round-trips.
 *
 * Real code (NTS variant = one global record, so the record can be inspected directly):
 *   configfile.c, configuration.c, util/parser.c, util/syslog.c, util/string.c, outputregistry.c,
 *   genericregistry.c.  The output implementations are irrelevant here (stubs); ini_parse is not
 *   reached (the callback is driven directly: that IS inih's interface to snoopy).
 *
 * Entry points: h_bytelen, h_bool, h_syslog, h_output, h_dispatch, h_roundtrip.
 */
#define _GNU_SOURCE
#include <stdlib.h>
#include <string.h>
#include <syslog.h>
#include "snoopy.h"
#include "configuration.h"
#include "configfile.h"
#include "util/parser-snoopy.h"
#include "lib/inih/src/ini.h"

#ifndef VLEN
#define VLEN 6          /* bytes of a symbolic option value */
#endif
#ifndef NDIG
#define NDIG 18
#endif

struct in_t {
    char val[24];
    char dig2[24];
    char val2[VLEN + 1];
    unsigned char key, key2, sect, ndig, suffix, okind, oarglen;
    unsigned long long num, num2;
    unsigned char fac, lev, el;
    unsigned len1, len2;
    char s1[4], s2[4], s3[4], oarg[4];
    unsigned char casemask, prefix;
};
#include "verif.h"
V_DEFINE_IN

/* ---- stubs needed to link the real units ------------------------------- */
int ini_parse(const char *filename, ini_handler handler, void *user) { (void)filename; (void)handler; (void)user; return -1; }
#define OUTSTUB(n) int n(char const * const m, char const * const a) { (void)m; (void)a; return 1; }
OUTSTUB(snoopy_output_devlogoutput) OUTSTUB(snoopy_output_devnulloutput) OUTSTUB(snoopy_output_devttyoutput)
OUTSTUB(snoopy_output_fileoutput) OUTSTUB(snoopy_output_socketoutput) OUTSTUB(snoopy_output_stderroutput)
OUTSTUB(snoopy_output_stdoutoutput) OUTSTUB(snoopy_output_syslogoutput) OUTSTUB(snoopy_output_noopoutput)

static const char *const OUTNAMES[8] = { "devlog", "devnull", "devtty", "file", "socket", "stderr", "stdout", "noop" };
static const char *const KEYS[11] = { "error_logging", "filter_chain", "message_format", "output", "syslog_facility", "syslog_ident",
                                      "syslog_level", "datasource_message_max_length", "log_message_max_length", "bogus_option", "" };

static snoopy_configuration_t *fresh(void)
{
    snoopy_configuration_t *c = snoopy_configuration_get();
    snoopy_configuration_setDefaults(c);
    return c;
}

/* ------------------------------------------------------------------------ */
/* (1) byte lengths: digits [+ k/m], clamp [min,max], default on zero/garbage, monotone */
/* ------------------------------------------------------------------------ */
static long long ref_bytelen(unsigned long long n, char suffix, long long vmin, long long vmax, long long vdef)
{
    if (n == 0) return vdef;
    unsigned long long f = 1;
    if (suffix == 'k' || suffix == 'K') f = 1024ULL;
    else if (suffix == 'm' || suffix == 'M') f = 1048576ULL;
    /* n < 10^18 < 2^60 : clamp before multiplying so that 64 bits suffice */
    unsigned long long r = (n > (unsigned long long)vmax) ? (unsigned long long)vmax * f : n * f;
    if (r < (unsigned long long)vmin) r = (unsigned long long)vmin;
    if (r > (unsigned long long)vmax) r = (unsigned long long)vmax;
    return (long long)r;
}

/* text = ndig symbolic decimal digits (leading zeros allowed) + suffix byte + one arbitrary tail byte;
 * the reference value is accumulated from the digits (no division: keeps the SAT problem small) */
static unsigned long long build_num(char *out, const char *dig, int ndig, char suffix, char tail)
{
    unsigned long long v = 0;
    int p = 0;
    for (int i = 0; i < NDIG; i++) {
        if (i >= ndig) break;
        V_ASSUME(dig[i] >= '0' && dig[i] <= '9');
        out[p++] = dig[i];
        v = v * 10 + (unsigned)(dig[i] - '0');
    }
    if (suffix != '\0') { out[p++] = suffix; if (tail != '\0') out[p++] = tail; }
    out[p] = '\0';
    return v;
}

void h_bytelen(void)
{
    char t1[24], t2[24];
    V_HAVOC_IN();
    V_ASSUME(IN.ndig >= 1 && IN.ndig <= NDIG);
    char suffix = (char)IN.suffix;                /* any byte: k K m M, NUL (= none), or garbage */
    V_ASSUME(!(suffix >= '0' && suffix <= '9'));
    unsigned long long n1 = build_num(t1, IN.val, IN.ndig, suffix, IN.s1[0]);
    unsigned long long n2 = build_num(t2, IN.dig2, IN.ndig, suffix, IN.s1[0]);

    const int vmin = SNOOPY_LOG_MESSAGE_MAX_LENGTH_HARDMIN, vmax = SNOOPY_LOG_MESSAGE_MAX_LENGTH_HARDMAX, vdef = SNOOPY_LOG_MESSAGE_MAX_LENGTH_DEFAULT;
    int r1 = snoopy_util_parser_strByteLength(t1, vmin, vmax, vdef);
    V_ASSERT((long long)r1 == ref_bytelen(n1, suffix, vmin, vmax, vdef), "C08: length option = digits x suffix factor, clamped to [255,1048575], default on zero");
    int r2 = snoopy_util_parser_strByteLength(t2, vmin, vmax, vdef);
    if (n1 != 0 && n2 != 0 && n1 <= n2)
        V_ASSERT(r1 <= r2, "C08: length option never decreases as the number grows (same suffix)");

#ifdef WITH_RECORD
    /* through the option parsers into the record */
    snoopy_configuration_t *c = fresh();
    snoopy_configfile_iniParser_callback(c, "snoopy", "log_message_max_length", t1);
    V_ASSERT((long long)c->log_message_max_length == ref_bytelen(n1, suffix, 255, 1048575, SNOOPY_LOG_MESSAGE_MAX_LENGTH_DEFAULT), "C08: log_message_max_length stored as documented");
    snoopy_configfile_iniParser_callback(c, "snoopy", "datasource_message_max_length", t1);
    V_ASSERT((long long)c->datasource_message_max_length == ref_bytelen(n1, suffix, 255, 1048575, SNOOPY_DATASOURCE_MESSAGE_MAX_LENGTH_DEFAULT), "C08: datasource_message_max_length stored as documented");
#endif
    V_WITNESS();
}

/* garbage values for the length options: arbitrary bytes */
void h_bytelen_garbage(void)
{
    V_HAVOC_IN();
    IN.val2[VLEN] = '\0';
    unsigned long long n = 0; int i = 0;
    while (IN.val2[i] >= '0' && IN.val2[i] <= '9') { n = n * 10 + (unsigned)(IN.val2[i] - '0'); i++; }
    int r = snoopy_util_parser_strByteLength(IN.val2, 255, 1048575, 2047);
    V_ASSERT((long long)r == ref_bytelen(n, IN.val2[i], 255, 1048575, 2047), "C08: arbitrary text as length option: leading digits x suffix, else default");
    V_ASSERT(r >= 255 && r <= 1048575, "C08: length option always inside [255,1048575]");
    V_WITNESS();
}

/* ------------------------------------------------------------------------ */
/* (2) booleans by first letter                                              */
/* ------------------------------------------------------------------------ */
void h_bool(void)
{
    V_HAVOC_IN();
    IN.val2[VLEN] = '\0';
    snoopy_configuration_t *c = fresh();
    int before = (IN.el & 1) ? SNOOPY_TRUE : SNOOPY_FALSE;
    c->error_logging_enabled = before;
    snoopy_configfile_iniParser_callback(c, "snoopy", "error_logging", IN.val2);
    char f = IN.val2[0];
    int expect = before;
    if (f == 'y' || f == 'Y' || f == 't' || f == 'T' || f == '1') expect = SNOOPY_TRUE;
    else if (f == 'n' || f == 'N' || f == 'f' || f == 'F' || f == '0') expect = SNOOPY_FALSE;
    V_ASSERT(c->error_logging_enabled == expect, "C08: boolean option decided by the first letter, unparsable leaves it unchanged");
    V_WITNESS();
}

/* ------------------------------------------------------------------------ */
/* (3) syslog facility / level: case-insensitive, optional LOG_ prefix       */
/* ------------------------------------------------------------------------ */
static const char *const FACN[20] = { "AUTH", "AUTHPRIV", "CRON", "DAEMON", "FTP", "KERN", "LOCAL0", "LOCAL1", "LOCAL2", "LOCAL3", "LOCAL4",
                                      "LOCAL5", "LOCAL6", "LOCAL7", "LPR", "MAIL", "NEWS", "SYSLOG", "USER", "UUCP" };
static const int FACV[20] = { LOG_AUTH, LOG_AUTHPRIV, LOG_CRON, LOG_DAEMON, LOG_FTP, LOG_KERN, LOG_LOCAL0, LOG_LOCAL1, LOG_LOCAL2, LOG_LOCAL3, LOG_LOCAL4,
                              LOG_LOCAL5, LOG_LOCAL6, LOG_LOCAL7, LOG_LPR, LOG_MAIL, LOG_NEWS, LOG_SYSLOG, LOG_USER, LOG_UUCP };
static const char *const LEVN[8] = { "EMERG", "ALERT", "CRIT", "ERR", "WARNING", "NOTICE", "INFO", "DEBUG" };
static const int LEVV[8] = { LOG_EMERG, LOG_ALERT, LOG_CRIT, LOG_ERR, LOG_WARNING, LOG_NOTICE, LOG_INFO, LOG_DEBUG };

static int up(int c) { return (c >= 'a' && c <= 'z') ? c - 32 : c; }
static int ieq(const char *a, const char *b)
{
    size_t i = 0;
    for (; a[i] != '\0' && b[i] != '\0'; i++) if (up((unsigned char)a[i]) != up((unsigned char)b[i])) return 0;
    return a[i] == '\0' && b[i] == '\0';
}
static const char *strip_prefix(const char *s)
{
    if (up((unsigned char)s[0]) == 'L' && up((unsigned char)s[1]) == 'O' && up((unsigned char)s[2]) == 'G' && s[3] == '_') return s + 4;
    return s;
}
static int has_prefix(const char *s) { return strip_prefix(s) != s; }

/* arbitrary short text */
void h_syslog(void)
{
    V_HAVOC_IN();
    IN.val2[VLEN] = '\0';
    const char *core = strip_prefix(IN.val2);
    V_ASSUME(!has_prefix(core));            /* a doubled LOG_LOG_ prefix is outside the documented grammar: not judged */
    snoopy_configuration_t *c = fresh();
    snoopy_configfile_iniParser_callback(c, "snoopy", "syslog_facility", IN.val2);
    snoopy_configfile_iniParser_callback(c, "snoopy", "syslog_level", IN.val2);
    int xf = SNOOPY_SYSLOG_FACILITY, xl = SNOOPY_SYSLOG_LEVEL;
    for (int k = 0; k < 20; k++) if (ieq(core, FACN[k])) xf = FACV[k];
    for (int k = 0; k < 8; k++) if (ieq(core, LEVN[k])) xl = LEVV[k];
    V_ASSERT(c->syslog_facility == xf, "C08: syslog_facility = documented name (any case, optional LOG_), else default");
    V_ASSERT(c->syslog_level == xl, "C08: syslog_level = documented name (any case, optional LOG_), else default");
    V_WITNESS();
}

/* every documented name x case mask x prefix */
void h_syslog_names(void)
{
    char t[16];
    V_HAVOC_IN();
    V_ASSUME(IN.fac < 20 && IN.lev < 8);
    const char *nm = (IN.key & 1) ? FACN[IN.fac] : LEVN[IN.lev];
    size_t p = 0;
    if (IN.prefix & 1) { t[p++] = (IN.casemask & 1) ? 'l' : 'L'; t[p++] = (IN.casemask & 2) ? 'o' : 'O'; t[p++] = (IN.casemask & 4) ? 'g' : 'G'; t[p++] = '_'; }
    for (size_t i = 0; nm[i] != '\0'; i++) {
        char ch = nm[i];
        if ((IN.casemask >> (3 + (i % 5))) & 1) if (ch >= 'A' && ch <= 'Z') ch = (char)(ch + 32);
        t[p++] = ch;
    }
    t[p] = '\0';
    snoopy_configuration_t *c = fresh();
    c->syslog_facility = LOG_LOCAL7 + 8;   /* poison */
    c->syslog_level = 99;
    snoopy_configfile_iniParser_callback(c, "snoopy", (IN.key & 1) ? "syslog_facility" : "syslog_level", t);
    if (IN.key & 1) V_ASSERT(c->syslog_facility == FACV[IN.fac], "C08: every documented facility name is accepted in any case with optional LOG_");
    else            V_ASSERT(c->syslog_level == LEVV[IN.lev], "C08: every documented level name is accepted in any case with optional LOG_");
    V_WITNESS();
}

/* ------------------------------------------------------------------------ */
/* (4) output = name[:argument]                                               */
/* ------------------------------------------------------------------------ */
static int known_output(const char *s, size_t n)
{
    for (int k = 0; k < 8; k++) {
        size_t i = 0;
        for (; i < n && OUTNAMES[k][i] != '\0' && OUTNAMES[k][i] == s[i]; i++) { }
        if (i == n && OUTNAMES[k][i] == '\0') return 1;
    }
    return 0;
}

static void check_output(const char *val)
{
    snoopy_configuration_t *c = fresh();
    snoopy_configfile_iniParser_callback(c, "snoopy", "output", val);
    size_t n = strlen(val), colon = 0;
    while (colon < n && val[colon] != ':') colon++;
    if (known_output(val, colon)) {
        V_ASSERT(strlen(c->output) == colon && strncmp(c->output, val, colon) == 0, "C08: output name = text before the first ':'");
        if (colon < n) V_ASSERT(strcmp(c->output_arg, val + colon + 1) == 0, "C08: output argument = everything after the first ':'");
        else           V_ASSERT(c->output_arg[0] == '\0', "C08: output without ':' has an empty argument");
    } else {
        V_ASSERT(strcmp(c->output, SNOOPY_OUTPUT_DEFAULT) == 0 && strcmp(c->output_arg, SNOOPY_OUTPUT_DEFAULT_ARG) == 0, "C08: unknown output name leaves the default output in force");
    }
    snoopy_configuration_dtor();
}

/* arbitrary short text (names "file", "noop" fit; grammar corners ':' '::' ':x' 'x:') */
void h_output(void)
{
    V_HAVOC_IN();
    IN.val2[VLEN] = '\0';
    check_output(IN.val2);
    V_WITNESS();
}

/* every registered name, optional ':' + argument of 0..3 arbitrary bytes (may contain ':') */
void h_output_names(void)
{
    char t[16];
    V_HAVOC_IN();
    V_ASSUME(IN.okind < 9 && IN.oarglen <= 3);
    const char *nm = (IN.okind < 8) ? OUTNAMES[IN.okind] : "nosuch";
    size_t p = 0;
    for (size_t i = 0; nm[i] != '\0'; i++) t[p++] = nm[i];
    if (IN.prefix & 1) {
        t[p++] = ':';
        for (int i = 0; i < 3; i++) { if (i >= IN.oarglen) break; V_ASSUME(IN.oarg[i] != '\0'); t[p++] = IN.oarg[i]; }
    }
    t[p] = '\0';
    check_output(t);
    V_WITNESS();
}

/* output twice: "nameA[:argA]" then "nameB[:argB]" must equal "nameB[:argB]" alone (last occurrence wins) */
static size_t build_output(char *t, unsigned kind, int hasarg, unsigned arglen, const char *arg)
{
    const char *nm = (kind < 8) ? OUTNAMES[kind] : "nosuch";
    size_t p = 0;
    for (size_t i = 0; nm[i] != '\0'; i++) t[p++] = nm[i];
    if (hasarg) {
        t[p++] = ':';
        for (unsigned i = 0; i < 3; i++) { if (i >= arglen) break; V_ASSUME(arg[i] != '\0'); t[p++] = arg[i]; }
    }
    t[p] = '\0';
    return p;
}

void h_output_lastwins(void)
{
    char t1[16], t2[16];
    V_HAVOC_IN();
    V_ASSUME(IN.okind < 9 && IN.oarglen <= 3 && IN.fac < 9 && IN.lev <= 3);
    build_output(t1, IN.fac, IN.casemask & 1, IN.lev, IN.s1);
    build_output(t2, IN.okind, IN.prefix & 1, IN.oarglen, IN.oarg);
    snoopy_configuration_t *c = fresh();
    snoopy_configfile_iniParser_callback(c, "snoopy", "output", t1);
    snoopy_configfile_iniParser_callback(c, "snoopy", "output", t2);
    size_t n = strlen(t2), colon = 0;
    while (colon < n && t2[colon] != ':') colon++;
    if (IN.okind < 8) {
        V_ASSERT(strlen(c->output) == colon && strncmp(c->output, t2, colon) == 0, "C08: last output line wins (name)");
        if (colon < n) V_ASSERT(strcmp(c->output_arg, t2 + colon + 1) == 0, "C08: last output line wins (argument)");
        else           V_ASSERT(c->output_arg[0] == '\0', "C08: last output line without ':' has an empty argument, nothing survives from an earlier line");
    } else {
        V_ASSERT(strcmp(c->output, SNOOPY_OUTPUT_DEFAULT) == 0 && strcmp(c->output_arg, SNOOPY_OUTPUT_DEFAULT_ARG) == 0, "C08: unknown last output name leaves the default output in force");
    }
    V_WITNESS();
}

/* ------------------------------------------------------------------------ */
/* (5) dispatch: other sections / unknown keys ignored; last occurrence wins */
/* ------------------------------------------------------------------------ */
static int same_cfg(const snoopy_configuration_t *a, const snoopy_configuration_t *b)
{
    return a->error_logging_enabled == b->error_logging_enabled && a->syslog_facility == b->syslog_facility &&
           a->syslog_level == b->syslog_level && a->datasource_message_max_length == b->datasource_message_max_length &&
           a->log_message_max_length == b->log_message_max_length &&
           strcmp(a->message_format, b->message_format) == 0 && strcmp(a->filter_chain, b->filter_chain) == 0 &&
           strcmp(a->output, b->output) == 0 && strcmp(a->output_arg, b->output_arg) == 0 &&
           strcmp(a->syslog_ident_format, b->syslog_ident_format) == 0;
}

void h_dispatch(void)
{
    V_HAVOC_IN();
    IN.val2[VLEN] = '\0';
    V_ASSUME(IN.key < 11);
    snoopy_configuration_t *c = fresh();
    snoopy_configuration_t before = *c;
    static const char *const SECTS[4] = { "", "Snoopy", "snoop", "snoopy2" };
    int r = snoopy_configfile_iniParser_callback(c, SECTS[IN.sect % 4], KEYS[IN.key], IN.val2);
    V_ASSERT(r != 0, "C08: a foreign section never makes the INI parser report an error");
    V_ASSERT(same_cfg(c, &before), "C08: options in other sections leave the configuration untouched");
    r = snoopy_configfile_iniParser_callback(c, "snoopy", (IN.key2 & 1) ? "bogus_option" : "", IN.val2);
    V_ASSERT(r != 0 && same_cfg(c, &before), "C08: unknown options in [snoopy] leave the configuration untouched");
    V_WITNESS();
}

/* last occurrence wins: (key, v1) then (key, v2) == (key, v2) alone, for parsable v2 */
void h_lastwins(void)
{
    V_HAVOC_IN();
    IN.val2[VLEN] = '\0';
    IN.s1[3] = '\0';
    V_ASSUME(IN.key < 9);
    if (IN.key == 0) { char f = IN.val2[0]; V_ASSUME(f == 'y' || f == 'Y' || f == 't' || f == 'T' || f == '1' || f == 'n' || f == 'N' || f == 'f' || f == 'F' || f == '0'); }
    snoopy_configuration_t *c = fresh();
    snoopy_configfile_iniParser_callback(c, "snoopy", KEYS[IN.key], IN.val2);
    snoopy_configuration_t alone = *c;
    char *a_mf = strdup(c->message_format), *a_fc = strdup(c->filter_chain), *a_o = strdup(c->output), *a_oa = strdup(c->output_arg), *a_id = strdup(c->syslog_ident_format);
    alone.message_format = a_mf; alone.filter_chain = a_fc; alone.output = a_o; alone.output_arg = a_oa; alone.syslog_ident_format = a_id;
    snoopy_configuration_dtor();
    c = fresh();
    snoopy_configfile_iniParser_callback(c, "snoopy", KEYS[IN.key], IN.s1);
    snoopy_configfile_iniParser_callback(c, "snoopy", KEYS[IN.key], IN.val2);
    V_ASSERT(same_cfg(c, &alone), "C08: the last occurrence of an option wins");
    V_WITNESS();
}

/* ------------------------------------------------------------------------ */
/* (6) `snoopyctl conf` round trip                                            */
/* ------------------------------------------------------------------------ */
void h_roundtrip(void)
{
    V_HAVOC_IN();
    V_ASSUME(IN.fac < 20 && IN.lev < 8 && IN.okind < 8 && IN.oarglen <= 3);
    V_ASSUME(IN.len1 >= 255 && IN.len1 <= 1048575 && IN.len2 >= 255 && IN.len2 <= 1048575);
    IN.s1[3] = IN.s2[3] = IN.s3[3] = '\0';
    char oarg[4];
    for (int i = 0; i < 3; i++) { if (i < IN.oarglen) V_ASSUME(IN.oarg[i] != '\0'); oarg[i] = (i < IN.oarglen) ? IN.oarg[i] : '\0'; }
    oarg[3] = '\0';

    snoopy_configuration_t *c = fresh();
    c->error_logging_enabled = (IN.el & 1) ? SNOOPY_TRUE : SNOOPY_FALSE;
    c->message_format = IN.s1; c->filter_chain = IN.s2; c->syslog_ident_format = IN.s3;
    c->output = (char *)OUTNAMES[IN.okind]; c->output_arg = oarg;
    c->syslog_facility = FACV[IN.fac]; c->syslog_level = LEVV[IN.lev];
    c->datasource_message_max_length = IN.len1; c->log_message_max_length = IN.len2;
    snoopy_configuration_t want = *c;

    /* what `snoopyctl conf` prints, option by option */
    char *txt[9];
    for (int k = 0; k < 9; k++) {
        txt[k] = snoopy_configfile_optionRegistry_getOptionValueAsString(KEYS[k]);
        V_ASSERT(txt[k] != NULL, "C08: every option can be shown by conf");
    }
    /* ... written back into a config file and read by a fresh process */
    c = fresh();
    for (int k = 0; k < 9; k++) if (txt[k] != NULL) snoopy_configfile_iniParser_callback(c, "snoopy", KEYS[k], txt[k]);
    V_ASSERT(same_cfg(c, &want), "C08: the value shown by `snoopyctl conf`, written back, yields the same setting");
    V_WITNESS();
}
