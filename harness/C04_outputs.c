/* C04 / C03 / C17 (+ the output half of C07 and C16): exactly one faithful record per logged exec at the
 * configured output and nowhere else, none when filtered or empty; every I/O call may fail and nothing
 * blocks, signals, leaks a stream/descriptor; file records are appended in one write.
 *
 * Real code: action/log-syscall-exec.c, action/log-message-dispatch.c, outputregistry.c, genericregistry.c,
 *   every output (file, devtty, devnull, socket, devlog, stdout, stderr, noop), message.c, util/string.c, error.c.
 * Environment: models/vfs.c (stdio + sockets; every call may fail by v_choice()), getpid from the harness.
 * Stubs: configuration record (harness), filter chain verdict (symbolic), data source registry (none known).
 */
#ifndef _GNU_SOURCE
#define _GNU_SOURCE
#endif
#include <stdlib.h>
#include <string.h>
#include <syslog.h>
#include <sys/socket.h>
#include <unistd.h>
#include "snoopy.h"
#include "configuration.h"
#include "action/log-syscall-exec.h"
#include "vfs.h"
#include "verif.h"

#ifndef MSGMAX
#define MSGMAX 5
#endif
#ifndef ARGMAXLEN
#define ARGMAXLEN 5
#endif
#define LMAX MSGMAX   /* the configured maximum is REACHED by the longest symbolic message (seed C04-c2: boundary at strlen == max) */

struct in_t {
    char msg[MSGMAX + 1];
    char arg[ARGMAXLEN + 1];
    char ident[3];
    unsigned char out, drop, errlog, fac, lev;
    int pid;
    unsigned bufsize;
    int ch[V_NCH];
};
V_DEFINE_IN

static const char *const OUT[9] = { "devlog", "devnull", "devtty", "file", "socket", "stderr", "stdout", "noop", "bogus" };
static const int FACV[20] = { LOG_AUTH, LOG_AUTHPRIV, LOG_CRON, LOG_DAEMON, LOG_FTP, LOG_KERN, LOG_LOCAL0, LOG_LOCAL1, LOG_LOCAL2, LOG_LOCAL3, LOG_LOCAL4,
                              LOG_LOCAL5, LOG_LOCAL6, LOG_LOCAL7, LOG_LPR, LOG_MAIL, LOG_NEWS, LOG_SYSLOG, LOG_USER, LOG_UUCP };

/* ---- stubs ------------------------------------------------------------ */
static snoopy_configuration_t g_cfg;
static int g_cfg_gets;
snoopy_configuration_t *snoopy_configuration_get(void)
{
    /* every component asks for the configuration a few times per record; dozens of requests for ONE logged exec mean the
     * error report re-enters the failing output without bound (runaway recursion => stack overflow in the calling process) */
    g_cfg_gets++;
    V_ASSERT(g_cfg_gets <= 24, "C03/C02: error reporting re-enters the failing output without bound (runaway recursion)");
#ifdef VERIF_CBMC
    __CPROVER_assume(g_cfg_gets <= 24);
#endif
    return &g_cfg;
}
int snoopy_filtering_check_chain(char const * const chain) { (void)chain; return (IN.drop & 1) ? SNOOPY_FILTER_DROP : SNOOPY_FILTER_PASS; }
int snoopy_datasourceregistry_doesNameExist(char const * const n) { (void)n; return 0; }
int snoopy_datasourceregistry_callByName(char const * const n, char * const b, size_t s, char const * const a) { (void)n; (void)b; (void)s; (void)a; return -1; }
#ifndef PIDBITS
#define PIDBITS 22          /* Linux PID_MAX_LIMIT = 2^22 */
#endif
#ifndef PIDBASE
#define PIDBASE 0           /* partition of the pid range: pid = PIDBASE + (PIDBITS symbolic bits) */
#endif
#ifdef HAVE_VSYS      /* vsys.c supplies getpid (and the forbidden-call assertions) */
#include "vsys.h"
#else
pid_t getpid(void) { return (pid_t)(PIDBASE + (IN.pid & ((1 << PIDBITS) - 1))); }
#endif
void v_fs_lookup(const char *path, struct v_vfile *out) { (void)path; out->exists = 0; }

/* oracle's own decimal printer */
static size_t put_dec(char *o, size_t p, long long v)
{
    char t[24]; int n = 0;
    unsigned long long u = (v < 0) ? 0ULL - (unsigned long long)v : (unsigned long long)v;
    if (v < 0) o[p++] = '-';
    do { t[n++] = (char)('0' + (int)(u % 10)); u /= 10; } while (u != 0);
    while (n > 0) o[p++] = t[--n];
    return p;
}

/* the bytes handed to destination `dest`, in order, over ALL write records (a record may be assembled by several stdio
 * calls - fputs + fputc, two fprintf - what counts for C04 is the byte stream; the number of write() system calls is C17) */
static int stream_is(int dest, const char *want, size_t wl)
{
    size_t p = 0;
    for (int i = 0; i < V_NW; i++) {
        if (i >= v_nw) break;
        if (v_w[i].dest != dest) return 0;                   /* something went elsewhere */
        for (size_t k = 0; k < v_w[i].len && k < V_WCAP; k++) {
            if (p >= wl || v_w[i].data[k] != want[p]) return 0;
            p++;
        }
    }
    return p == wl;
}

static int rec_is(const struct v_wrec *r, int dest, const char *want, size_t wl)
{
    if (r->dest != dest || r->len != wl) return 0;
    for (size_t i = 0; i < wl && i < V_WCAP; i++) if (r->data[i] != want[i]) return 0;
    return 1;
}

static void run_once(void)
{
    g_cfg_gets = 0;
    snoopy_action_log_syscall_exec();

    size_t ml = strlen(IN.msg), al = strlen(IN.arg);
    int logged = !(IN.drop & 1) && ml > 0;

    /* C03/C16: whatever failed, nothing stays open */
    V_ASSERT(v_open_streams == 0, "C03/C16: every opened stream is closed on every path");
    V_ASSERT(v_sock_open == 0, "C03/C16: every socket is closed on every path");

#ifdef OVERLONG_TEMPLATE
    return;     /* only termination, bounded error reporting and 'nothing left open' are judged in this partition */
#endif
    if (!logged) {
        V_ASSERT(v_nw == 0 && v_fopen_calls == 0 && v_sock_calls == 0, "C04/C07: a filtered-out or empty message produces no output of any kind");
    } else {
        char want[V_WCAP]; size_t wl = 0;
        int nfile = 0, nsock = 0, nout = 0, nerr = 0;
        for (int i = 0; i < v_nw && i < V_NW; i++) {
            if (v_w[i].dest == V_DEST_FILE) nfile++;
            else if (v_w[i].dest == V_DEST_SOCKET) nsock++;
            else if (v_w[i].dest == V_DEST_STDOUT) nout++;
            else nerr++;
        }
        V_ASSERT(v_nw <= V_NW, "C04: bounded number of write calls per logged exec");
        switch (IN.out) {
        case 1: case 2: case 3: {               /* devnull, devtty, file */
            const char *path = (IN.out == 1) ? "/dev/null" : (IN.out == 2) ? "/dev/tty" : IN.arg;
            if (IN.out == 3 && al == 0) { V_ASSERT(v_fopen_calls == 0 && v_nw == 0, "C04: file output without a path writes nothing"); break; }
            V_ASSERT(v_fopen_calls == 1, "C04: file-type output opens its destination exactly once");
            V_ASSERT(strncmp(v_last_path, path, V_PATHCAP - 1) == 0, "C04: file-type output opens the configured path");
            V_ASSERT(v_last_mode[0] == 'a' && v_last_mode[1] == '\0', "C17: destination opened for appending only (never truncated, never seeked)");
            V_ASSERT(nsock == 0 && nout == 0 && nerr == 0 && v_sock_calls == 0, "C04: nothing is written anywhere else");
            if (v_fopen_ok == 1) {
                V_ASSERT(v_nw >= 1 && nfile == v_nw, "C04: the record is written to the opened file");
                for (size_t i = 0; i < ml; i++) want[wl++] = IN.msg[i];
                want[wl++] = '\n';
                int all_complete = 1;
                for (int i = 0; i < V_NW && i < v_nw; i++) if (!v_w[i].complete) all_complete = 0;
                if (all_complete) V_ASSERT(stream_is(V_DEST_FILE, want, wl), "C04: file record is the message plus a newline, byte for byte");
                else V_ASSERT(v_w[0].dest == V_DEST_FILE, "C04: a failing write still targets the configured file only");
#ifdef CHECK_C17
                V_ASSERT(v_nw == 1, "C17: the record is handed over by exactly one write call");
                if (v_w[0].complete)
                    V_ASSERT(v_st[0].os_writes == 1 && v_st[0].os_bytes == wl, "C17: the record reaches the descriptor in exactly one write()");
#endif
            } else {
                V_ASSERT(v_nw == 0, "C03: failed open => nothing written");
            }
            break;
        }
        case 5: case 6: {                       /* stderr, stdout */
            int d = (IN.out == 5) ? V_DEST_STDERR : V_DEST_STDOUT;
            for (size_t i = 0; i < ml; i++) want[wl++] = IN.msg[i];
            want[wl++] = '\n';
            int all_ok = 1;
            for (int i = 0; i < V_NW && i < v_nw; i++) if (!v_w[i].complete) all_ok = 0;
            V_ASSERT(v_nw >= 1, "C04: stdout/stderr output writes the record");
            if (all_ok) V_ASSERT(stream_is(d, want, wl), "C04: stdout/stderr record is the message plus a newline on that stream only");
            else V_ASSERT(v_w[0].dest == d, "C04: a failing write still targets the configured stream only");
            V_ASSERT(v_fopen_calls == 0 && v_sock_calls == 0, "C04: nothing is written anywhere else");
            V_ASSERT(v_stdout_pending == 0, "C04: the record is handed to the operating system before the real exec (nothing left in a stdio buffer)");
            break;
        }
        case 0: case 4: {                       /* devlog, socket */
            const char *path = (IN.out == 0) ? "/dev/log" : IN.arg;
            V_ASSERT(v_fopen_calls == 0 && nfile == 0 && nout == 0 && nerr == 0, "C04: nothing is written anywhere else");
            V_ASSERT(v_sock_calls == 1, "C04: one socket per record");
            V_ASSERT(v_sock_domain == AF_LOCAL && (v_sock_type & 0xf) == SOCK_DGRAM, "C04: datagram socket in the local domain");
            V_ASSERT((v_sock_type & SOCK_NONBLOCK) && (v_sock_type & SOCK_CLOEXEC), "C03/C16: socket is non-blocking and close-on-exec");
            if (v_connect_calls > 0)
                V_ASSERT(strncmp(v_sock_path, path, V_PATHCAP - 1) == 0, "C04: socket output connects to the configured path");
            if (v_send_calls > 0) {
                V_ASSERT(v_send_calls == 1 && v_nw == 1, "C04: exactly one datagram per record");
                V_ASSERT((v_send_flags & MSG_DONTWAIT) && (v_send_flags & MSG_NOSIGNAL), "C03: send never blocks and never raises SIGPIPE");
                if (IN.out == 0) {
                    want[wl++] = '<'; wl = put_dec(want, wl, FACV[IN.fac] | IN.lev); want[wl++] = '>';
                    for (size_t i = 0; IN.ident[i] != '\0'; i++) want[wl++] = IN.ident[i];
                    want[wl++] = '['; wl = put_dec(want, wl, PIDBASE + (IN.pid & ((1 << PIDBITS) - 1))); want[wl++] = ']'; want[wl++] = ':'; want[wl++] = ' ';
                }
                for (size_t i = 0; i < ml; i++) want[wl++] = IN.msg[i];
                V_ASSERT(rec_is(&v_w[0], V_DEST_SOCKET, want, wl), "C04: datagram is exactly the message (devlog: <pri>ident[pid]: message)");
            } else {
                V_ASSERT(v_nw == 0, "C03: failed socket/connect => nothing sent");
            }
            break;
        }
        default:                                /* noop, unknown output name */
            V_ASSERT(v_nw == 0 && v_fopen_calls == 0 && v_sock_calls == 0, "C04: noop / unknown output writes nothing anywhere");
            break;
        }
    }
}

void harness(void)
{
    V_HAVOC_IN();
#ifdef OVERLONG_TEMPLATE   /* nearly concrete run: ident / path template longer than its (scaled) buffer, error logging on, all I/O succeeds */
    for (int i_ = 0; i_ < V_NCH; i_++) IN.ch[i_] = 0;
    IN.errlog = 1; IN.drop = 0;
    IN.msg[0] = 'm'; IN.msg[1] = '\0';
    for (int i_ = 0; i_ < ARGMAXLEN; i_++) IN.arg[i_] = 'a';
    IN.ident[0] = 'i'; IN.ident[1] = 'i';
#endif
#ifdef ALLFAIL     /* partition: every environment call fails, error logging on: a nearly concrete run that follows runaway retry/recursion cheaply */
    for (int i_ = 0; i_ < V_NCH; i_++) IN.ch[i_] = 1;
    IN.errlog = 1; IN.drop = 0;
#endif
    V_LOAD_CH();
    IN.msg[MSGMAX] = '\0'; IN.arg[ARGMAXLEN] = '\0'; IN.ident[2] = '\0';
    for (int i = 0; i < MSGMAX; i++) V_ASSUME(IN.msg[i] != '%');        /* format expansion is C05's subject */
    for (int i = 0; i < ARGMAXLEN; i++) V_ASSUME(IN.arg[i] != '%');
    for (int i = 0; i < 2; i++) V_ASSUME(IN.ident[i] != '%');
#ifdef OUTSEL
    IN.out = OUTSEL;                 /* partition: one query per output */
#endif
    V_ASSUME(IN.out < 9 && IN.fac < 20 && IN.lev < 8);
    V_ASSUME(IN.bufsize >= 1 && IN.bufsize <= (1u << 20));
#ifdef KF_record_larger_than_stdio_buffer
    /* known finding (C17): records larger than the stdio buffer reach the file in >= 2 write() calls */
    V_ASSUME((size_t)IN.bufsize >= strlen(IN.msg) + 1);
#endif
    v_fs_reset();
#ifdef HAVE_VSYS
    v_sys.pid = (pid_t)(PIDBASE + (IN.pid & ((1 << PIDBITS) - 1)));
#endif
    v_stdio_bufsize = IN.bufsize;

    g_cfg.initialized = SNOOPY_TRUE;
    g_cfg.filtering_enabled = SNOOPY_TRUE;
    g_cfg.filter_chain = "";
    g_cfg.error_logging_enabled = (IN.errlog & 1) ? SNOOPY_TRUE : SNOOPY_FALSE;
    g_cfg.message_format = IN.msg;
    g_cfg.output = (char *)OUT[IN.out];
    g_cfg.output_arg = IN.arg;
    g_cfg.syslog_facility = FACV[IN.fac];
    g_cfg.syslog_level = IN.lev;
    g_cfg.syslog_ident_format = IN.ident;
    g_cfg.log_message_max_length = LMAX;
    g_cfg.datasource_message_max_length = 4;

    run_once();
#ifdef TWICE
    /* a second call in the same process must behave exactly like the first (no state carried over) */
    v_fs_reset();
    v_stdio_bufsize = IN.bufsize;
    run_once();
#endif
    V_WITNESS();
}
