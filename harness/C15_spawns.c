/* C15 (+ C03 fault tolerance, C16 residue of this filter): exclude_spawns_of drops exactly the descendants
 * of listed programs and passes whenever the process tree cannot be read.
 *
 * Real code: filter/exclude_spawns_of.c.  Environment: getppid() and /proc/<pid>/stat served by the harness
 * through models/vfs.c (fopen may fail at any ancestor, reads may fail).
 *
 * Ancestors have fixed pids 40, 30, 20, 10 (the process itself is 50 and must never be consulted); their
 * names are 1..3 symbolic bytes over {a, b, ' ', '(', ')'}; the chain has symbolic depth 1..DEPTH and ends
 * with parent pid 0.  The program list is LISTLEN symbolic bytes over {a, b, ' ', '(', ')', ','}.
 */
#ifndef _GNU_SOURCE
#define _GNU_SOURCE
#endif
#include <stdlib.h>
#include <string.h>
#include <unistd.h>
#include "snoopy.h"
#include "filter/exclude_spawns_of.h"
#include "vfs.h"
#include "verif.h"

#ifndef DEPTH
#define DEPTH 3
#endif
#ifndef LISTLEN
#define LISTLEN 6
#endif
#define NAMEMAX 3
#define TEXTCAP 24

struct in_t {
    unsigned char depth;
    unsigned char nlen[DEPTH];
    char name[DEPTH][NAMEMAX];
    char list[LISTLEN + 1];
    int ch[V_NCH];
};
V_DEFINE_IN

static const int PIDS[4] = { 40, 30, 20, 10 };
static char g_text[DEPTH][TEXTCAP];
static int  g_self_consulted;

pid_t getppid(void) { return PIDS[0]; }
pid_t getpid(void)  { return 50; }

static int alpha(char c) { return c == 'a' || c == 'b' || c == ' ' || c == '(' || c == ')'; }

/* "<pid> (<name>) S <ppid> 1\n" with every byte at a concrete index (if-then-else over the symbolic name length) */
static void render(int i)
{
    static const char *const PIDSTR[4] = { "40", "30", "20", "10" };
    const char *next = (i + 1 < (int)IN.depth && i + 1 < DEPTH) ? PIDSTR[i + 1] : "00";
    const char tail[10] = { ')', ' ', 'S', ' ', next[0], next[1], ' ', '1', '\n', '\0' };
    char *t = g_text[i];
    t[0] = PIDSTR[i][0]; t[1] = PIDSTR[i][1]; t[2] = ' '; t[3] = '(';
    unsigned nl = IN.nlen[i];
    for (unsigned j = 0; j < NAMEMAX + 9; j++) {
        char c;
        if (j < nl) c = IN.name[i][j];
        else c = (j - nl < 10) ? tail[j - nl] : '\0';
        t[4 + j] = c;
    }
    t[4 + NAMEMAX + 9] = '\0';
}

void v_fs_lookup(const char *path, struct v_vfile *out)
{
    /* "/proc/NN/stat" */
    out->exists = 0;
    if (strncmp(path, "/proc/", 6) != 0) return;
    int pid = (path[6] - '0') * 10 + (path[7] - '0');
    if (pid == 50) g_self_consulted = 1;
    if (strcmp(path + 8, "/stat") != 0) return;
    for (int i = 0; i < DEPTH; i++) {
        if (i >= (int)IN.depth) break;
        if (PIDS[i] == pid) { out->exists = 1; out->content = g_text[i]; out->len = strlen(g_text[i]); return; }
    }
}

static int listed(const char *nm, unsigned nl)
{
    /* reference tokenisation: non-empty comma separated items */
    size_t n = strlen(IN.list), i = 0;
    while (i < n) {
        while (i < n && IN.list[i] == ',') i++;
        size_t b = i;
        while (i < n && IN.list[i] != ',') i++;
        if (i > b && i - b == nl) {
            int eq = 1;
            for (unsigned k = 0; k < nl; k++) if (IN.list[b + k] != nm[k]) eq = 0;
            if (eq) return 1;
        }
    }
    return 0;
}

void harness(void)
{
    V_HAVOC_IN();
    V_LOAD_CH();
    IN.list[LISTLEN] = '\0';
    V_ASSUME(IN.depth >= 1 && IN.depth <= DEPTH);
    for (int i = 0; i < LISTLEN; i++) V_ASSUME(IN.list[i] == '\0' || IN.list[i] == ',' || alpha(IN.list[i]));
    for (int i = 0; i < DEPTH; i++) {
        V_ASSUME(IN.nlen[i] >= 1 && IN.nlen[i] <= NAMEMAX);
        for (int k = 0; k < NAMEMAX; k++) V_ASSUME(alpha(IN.name[i][k]));
        render(i);
    }
    v_fs_reset();
    v_no_short_reads = 1;
    g_self_consulted = 0;

    int v = snoopy_filter_exclude_spawns_of(IN.list);

    /* first listed ancestor, walking up from the parent */
    int m = -1;
    for (int i = 0; i < DEPTH; i++) {
        if (i >= (int)IN.depth) break;
        if (m < 0 && listed(IN.name[i], IN.nlen[i])) m = i;
    }
    int expect_drop = (m >= 0) && (v_fread_full >= m + 1);      /* every ancestor up to the match was readable */
    V_ASSERT(v == (expect_drop ? SNOOPY_FILTER_DROP : SNOOPY_FILTER_PASS),
             "C15: drop exactly when some ancestor (parent or higher) readable from procfs carries a listed name; pass otherwise, including when the tree cannot be read");
    V_ASSERT(!g_self_consulted, "C15: the calling process itself is never consulted");
    V_ASSERT(v_open_streams == 0, "C03/C16: every procfs stream is closed on every path");
    if (m >= 0 && v == SNOOPY_FILTER_DROP) V_ASSERT(v_fopen_ok == m + 1, "C15: the walk stops at the first listed ancestor");
    V_WITNESS();
}
