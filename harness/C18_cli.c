/* C18 / C19 / C20: `snoopyctl enable` / `disable` on ld.so.preload.
 *
 * Real code: cli/action-enable.c, cli/action-disable.c, cli/cli-subroutines.c, util/string.c.
 * Environment (this file): one on-disk file (the preload file) with POSIX stdio semantics -
 *   fopen("r") fails with ENOENT if absent; fopen("w+") TRUNCATES AT OPEN; fprintf appends to the stream's
 *   pending buffer and may flush any prefix early; fclose flushes the rest - getenv (test paths), access,
 *   exit() (runs the exit oracle, ends the path), diagnostics (printf family) are silent.
 *
 * Scaled constants (preprocessed text of the cli units only): the needle "libsnoopy.so" -> "ls"; the library
 * path comes from the environment model ("/ls"), the preload path is "/p".
 *
 * -DACTION=0 enable, 1 disable.   -DCRASH: C20 mode (symbolic crash point at every file-system call boundary,
 * write-type calls may fail).
 */
#ifndef _GNU_SOURCE
#define _GNU_SOURCE
#endif
#include <errno.h>
#include <stdarg.h>
#include <stdio.h>
#include <stdlib.h>
#include <string.h>
#include <unistd.h>
#include "snoopy.h"
#include "cli/action-enable.h"
#include "cli/action-disable.h"
#include "cli/cli-subroutines.h"
#include "verif.h"

#ifndef CLEN
#define CLEN 7              /* bytes of symbolic file content */
#endif
#ifndef ACTION
#define ACTION 0
#endif
#define LIBPATH "/ls"
#define NEEDLE  "ls"
#define PLEN 3
#define CAP (CLEN + PLEN + 4)

struct in_t {
    char content[CLEN + 1];
    unsigned char absent;
    unsigned char crash_at;       /* C20: boundary index at which the process is killed (255 = never) */
    unsigned char flush_early;    /* C20: bytes of the pending data stdio happens to flush before fclose */
    unsigned char fail_open, fail_write, partial;
};
V_DEFINE_IN

/* ---- the disk ------------------------------------------------------------- */
/* file 0 = the preload file "/p"; file 1 = ONE auxiliary file of any other name (a temporary for write-then-rename) */
static char   f_disk[2][CAP + 1]; static size_t f_len[2]; static int f_exists[2];
static char   f_auxname[16];
#define d_disk   f_disk[0]
#define d_len    f_len[0]
#define d_exists f_exists[0]
static int    s_file;          /* which file the open stream refers to */
static char   d_old[CAP + 1];  static size_t d_oldlen; static int d_oldexists;
static char   d_new[CAP + 1];  static size_t d_newlen; static int d_newknown;   /* content handed to the write call */
static int    g_wopen_calls, g_wopen_ok, g_fprintf_calls, g_exit_code = -1, g_returned = -1, g_open_streams;
static int    g_step;                                            /* file-system call boundaries passed */
static int    g_write_failed;
static FILE   g_fobj;
#ifdef VERIF_CBMC
static FILE g_stdout_obj, g_stderr_obj;
FILE *stdout = &g_stdout_obj;
FILE *stderr = &g_stderr_obj;
#endif
static int    s_mode; static size_t s_rpos; static char s_pend[CAP + 1]; static size_t s_pendlen;
static size_t s_wpos;          /* file offset at which the next flushed byte lands */

static int disk_is(const char *c, size_t n, int exists)
{
    (void)exists;
    if (!d_exists || d_len != n) return 0;
    for (size_t i = 0; i < n; i++) if (d_disk[i] != c[i]) return 0;
    return 1;
}

#ifdef CRASH
static void crash_oracle(void)
{
    /* C20: at the instant the process dies the file holds the complete old or the complete new content */
    /* an absent file and an empty file are the same to the dynamic loader */
    int is_old = (d_oldlen == 0) ? (!d_exists || d_len == 0) : disk_is(d_old, d_oldlen, 1);
    int is_new = d_newknown && disk_is(d_new, d_newlen, 1);
#ifdef KF_truncate_then_write
    /* known finding: truncate-then-write leaves the file EMPTY or holding a PREFIX of the new content while the rewrite is
     * in flight or after a failed write.  Exactly those states are excluded; any other state (old/new mixtures, foreign
     * bytes, growth) is still a violation. */
    int is_prefix = d_exists && (!d_newknown ? d_len == 0 : d_len <= d_newlen);
    if (is_prefix && d_newknown) for (size_t i = 0; i < d_len; i++) if (d_disk[i] != d_new[i]) is_prefix = 0;
    if (g_wopen_ok > 0 && is_prefix) return;
#endif
    V_ASSERT(is_old || is_new, "C20: killed/failed at a system-call boundary => file holds the complete previous or the complete new content");
}
static void boundary(void)
{
    if (g_step == IN.crash_at) {
        crash_oracle();
#ifdef VERIF_CBMC
        __CPROVER_assume(0);
#else
        _exit(0);
#endif
    }
    g_step++;
}
#else
static void boundary(void) { g_step++; }
#endif

/* ---- stdio over the disk ---------------------------------------------------- */
FILE *fopen(const char *path, const char *mode)
{
    int fi = (strcmp(path, "/p") == 0) ? 0 : 1;
    if (fi == 1) {
        /* a second file: allowed (write-then-rename); the preload file itself stays the subject of every oracle */
        if (f_auxname[0] == '\0') { size_t k = 0; for (; k + 1 < sizeof f_auxname && path[k] != '\0'; k++) f_auxname[k] = path[k]; f_auxname[k] = '\0'; }
        V_ASSERT(strncmp(path, f_auxname, sizeof f_auxname - 1) == 0, "MODEL: more than one auxiliary file is not modelled");
    }
    s_file = fi;
    if (mode[0] == 'r' && mode[1] != '+' && !(mode[1] != '\0' && mode[2] == '+')) {
        if (!f_exists[fi]) { errno = ENOENT; return NULL; }
        s_mode = 'r'; s_rpos = 0; g_open_streams++;
        return &g_fobj;
    }
    if (mode[0] == 'r') {                       /* "r+": update in place, no truncation, position 0 */
        g_wopen_calls++;
        boundary();
        if (!f_exists[fi]) { errno = ENOENT; return NULL; }
#ifdef CRASH
        if (IN.fail_open & 1) { errno = EACCES; return NULL; }
#endif
        g_wopen_ok++;
        s_mode = 'w'; s_pendlen = 0; s_wpos = 0; s_rpos = 0; g_open_streams++;
        boundary();
        return &g_fobj;
    }
    V_ASSERT(mode[0] == 'w' || mode[0] == 'a', "MODEL fopen: unexpected mode");
    if (fi == 0) g_wopen_calls++;
    boundary();
#ifdef CRASH
    if (IN.fail_open & 1) { errno = EACCES; return NULL; }
#endif
    if (mode[0] == 'w') { f_len[fi] = 0; f_exists[fi] = 1; s_wpos = 0; }           /* O_TRUNC takes effect at open */
    else { f_exists[fi] = 1; s_wpos = f_len[fi]; }
    if (fi == 0) g_wopen_ok++;
    s_mode = 'w'; s_pendlen = 0; g_open_streams++;
    boundary();
    return &g_fobj;
}

static void flush_n(size_t n)
{
    for (size_t i = 0; i < n && i < s_pendlen; i++) if (s_wpos < CAP) { f_disk[s_file][s_wpos++] = s_pend[i]; if (s_wpos > f_len[s_file]) f_len[s_file] = s_wpos; }
    size_t k = 0;
    for (size_t i = n; i < s_pendlen; i++) s_pend[k++] = s_pend[i];
    s_pendlen = k;
}

int fprintf(FILE *fp, const char *fmt, ...)
{
    if (fp != &g_fobj) return 0;                               /* diagnostics on stderr: silent */
    V_ASSERT(s_mode == 'w' && strcmp(fmt, "%s") == 0, "MODEL fprintf: unexpected use");
    va_list ap; va_start(ap, fmt);
    const char *s = va_arg(ap, const char *);
    va_end(ap);
    g_fprintf_calls++;
    size_t n = strlen(s);
    V_ASSERT(n <= CAP, "MODEL: new content longer than capacity");
    for (size_t i = 0; i < n && i < CAP; i++) d_new[i] = s[i];
    d_newlen = n; d_newknown = 1;          /* the intended new content (whichever file it is first written to) */
    boundary();
#ifdef CRASH
    if (IN.fail_write & 1) {                                     /* ENOSPC / EIO / EDQUOT after a partial write */
        g_write_failed = 1;
        size_t k = IN.partial % (n + 1);
        for (size_t i = 0; i < k; i++) if (s_wpos < CAP) { f_disk[s_file][s_wpos++] = s[i]; if (s_wpos > f_len[s_file]) f_len[s_file] = s_wpos; }
        errno = ENOSPC;
        boundary();
        return -1;
    }
#endif
    for (size_t i = 0; i < n && s_pendlen < CAP; i++) s_pend[s_pendlen++] = s[i];
#ifdef CRASH
    flush_n(IN.flush_early % (s_pendlen + 1));                  /* stdio may flush any prefix whenever it likes */
#endif
    boundary();
    return (int)n;
}

int fclose(FILE *fp)
{
    V_ASSERT(fp == &g_fobj && g_open_streams == 1, "STDIO MISUSE fclose: stream not open (double close)");
    if (s_mode == 'w') { boundary(); flush_n(s_pendlen); boundary(); }
    g_open_streams--;
    return 0;
}

int fflush(FILE *fp)
{
    if (fp == &g_fobj && s_mode == 'w') { boundary(); flush_n(s_pendlen); boundary(); }
    return 0;
}
int fileno(FILE *fp) { (void)fp; return 5; }
int ftruncate(int fd, off_t len)
{
    V_ASSERT(fd == 5, "C20: no file other than the preload file is truncated");
    boundary();
#ifdef CRASH
    if (IN.fail_write & 2) { errno = EIO; g_write_failed = 1; boundary(); return -1; }
#endif
    if (len >= 0 && (size_t)len <= f_len[s_file]) f_len[s_file] = (size_t)len;
    boundary();
    return 0;
}
int fsync(int fd) { (void)fd; return 0; }

/* rename(aux, "/p"): the preload file is replaced ATOMICALLY by the auxiliary file's content */
int rename(const char *from, const char *to)
{
    V_ASSERT(f_auxname[0] != '\0' && strncmp(from, f_auxname, sizeof f_auxname - 1) == 0 && strcmp(to, "/p") == 0, "MODEL rename: only <auxiliary file> -> preload file is modelled");
    g_wopen_calls++; g_wopen_ok++;          /* counts as the (one) write-back of the preload file */
    boundary();
#ifdef CRASH
    if (IN.fail_write & 4) { errno = EXDEV; g_write_failed = 1; boundary(); return -1; }
#endif
    if (!f_exists[1]) { errno = ENOENT; return -1; }
    for (size_t i = 0; i < f_len[1] && i < CAP; i++) f_disk[0][i] = f_disk[1][i];
    f_len[0] = f_len[1]; f_exists[0] = 1; f_exists[1] = 0;
    boundary();
    return 0;
}
int unlink(const char *path)
{
    if (f_auxname[0] != '\0' && strncmp(path, f_auxname, sizeof f_auxname - 1) == 0) { f_exists[1] = 0; return 0; }
    V_ASSERT(strcmp(path, "/p") != 0, "C20: the preload file itself is never removed");
    errno = ENOENT; return -1;
}
int remove(const char *path) { return unlink(path); }

int fseek(FILE *fp, long off, int whence) { (void)fp; s_rpos = (whence == SEEK_END) ? f_len[s_file] + (size_t)off : (size_t)off; return 0; }
long ftell(FILE *fp) { (void)fp; return (long)s_rpos; }
size_t fread(void *buf, size_t sz, size_t nm, FILE *fp)
{
    (void)fp;
    size_t want = sz * nm, avail = f_len[s_file] - s_rpos, n = want < avail ? want : avail;
    for (size_t i = 0; i < n; i++) ((char *)buf)[i] = f_disk[s_file][s_rpos + i];
    s_rpos += n;
    return n / sz;
}
int printf(const char *fmt, ...) { (void)fmt; return 0; }
char *strerror(int e) { (void)e; return "E"; }
int access(const char *p, int m) { (void)p; (void)m; return 0; }
char *getenv(const char *n)
{
    if (strcmp(n, "SNOOPY_TEST_LIBSNOOPY_SO_PATH") == 0) return LIBPATH;
    if (strcmp(n, "SNOOPY_TEST_LD_SO_PRELOAD_PATH") == 0) return "/p";
    return NULL;
}

/* ---- reference predicates (written independently of the code under test) ----- */
static int is_line_start(const char *c, size_t i) { return i == 0 || c[i - 1] == '\n'; }
static int has_at(const char *c, size_t n, size_t i, const char *w, size_t wl)
{
    if (i + wl > n) return 0;
    for (size_t k = 0; k < wl; k++) if (c[i + k] != w[k]) return 0;
    return 1;
}
/* own(c): some line starts with the library path followed by end / newline / '#' / space / tab; returns index or -1 */
static int ref_own(const char *c, size_t n)
{
    for (size_t i = 0; i + PLEN <= n; i++) {
        if (!is_line_start(c, i) || !has_at(c, n, i, LIBPATH, PLEN)) continue;
        char f = (i + PLEN < n) ? c[i + PLEN] : '\0';
        if (f == '\0' || f == '\n' || f == '#' || f == ' ' || f == '\t') return (int)i;
    }
    return -1;
}
/* number of lines whose first byte is not '#' and that contain the needle (single pass) */
static int ref_active_lines(const char *c, size_t n)
{
    int cnt = 0, comment = 0, hit = 0;
    for (size_t k = 0; k < n; k++) {
        if (is_line_start(c, k)) { cnt += (hit && !comment); comment = (c[k] == '#'); hit = 0; }
        if (k + 1 < n && c[k] == NEEDLE[0] && c[k + 1] == NEEDLE[1] && c[k] != '\n') hit = 1;
    }
    cnt += (hit && !comment);
    return cnt;
}

static int g_ref_own, g_ref_active;      /* reference predicates of the INITIAL content, computed before the action runs */

static void exit_oracle(int code);
void exit(int code)
{
    g_exit_code = code;
    exit_oracle(code);
#ifdef VERIF_CBMC
    __CPROVER_assume(0);
#else
    _exit(0);
#endif
    while (1) { }
}

static size_t g_n;               /* length of the initial content */

static void final_oracle(int refused)
{
    const char *c = d_old;
    size_t n = d_oldlen;
#ifdef CRASH
    crash_oracle();              /* also at normal termination / error exit */
    if (g_write_failed || ((IN.fail_open & 1) && g_wopen_calls > 0))
        V_ASSERT(refused && g_exit_code != 0, "C20: a failed open/write of the preload file is reported with a non-zero exit status");
    return;
#endif
    int own = g_ref_own, active = g_ref_active;
    (void)c;
#if ACTION == 0
    /* ---------------- enable ---------------- */
    if (own >= 0) {
        V_ASSERT(!refused && g_wopen_calls == 0, "C18: entry already active => file left untouched, exit 0");
    } else if (refused) {
        V_ASSERT(g_wopen_calls == 0, "C18: a refusal leaves the file byte-identical");
        V_ASSERT(active > 0, "C18: enable refuses only because another ACTIVE line mentions a libsnoopy.so (comment lines never count)");
    } else {
        V_ASSERT(active == 0, "C18: enable does not add a second instance next to another active one");
        char want[CAP + 1]; size_t wl = 0;
        for (size_t i = 0; i < n; i++) want[wl++] = c[i];
        if (n > 0 && c[n - 1] != '\n') want[wl++] = '\n';
        for (size_t i = 0; i < PLEN; i++) want[wl++] = LIBPATH[i];
        want[wl++] = '\n';
        V_ASSERT(g_wopen_calls == 1 && g_fprintf_calls == 1, "C18: new content written back in one go");
        V_ASSERT(disk_is(want, wl, 1), "C18: result = old content + newline if it lacked one + library path + newline");
        V_ASSERT(ref_own(d_disk, d_len) >= 0, "C18: afterwards the entry is active (enabling twice equals enabling once; status finds it)");
        V_ASSERT(etcLdSoPreload_findEntry(d_disk, LIBPATH) != NULL && etcLdSoPreload_findNonCommentLineContainingString(d_disk, NEEDLE) != NULL,
                 "C18: the status routine's own lookups find the new entry");
    }
#else
    /* ---------------- disable ---------------- */
    if (active >= 2) {
        V_ASSERT(refused && g_wopen_calls == 0, "C19: duplicate active entries => refuse, file untouched");
    } else if (own < 0) {
        V_ASSERT(!refused && g_wopen_calls == 0, "C19: entry absent => file left untouched, exit 0");
    } else {
        V_ASSERT(!refused, "C19: a single own entry is removed");
        /* the entry's line: [own, e) plus its newline */
        size_t e = (size_t)own;
        while (e < n && c[e] != '\n') e++;
        char want[CAP + 1]; size_t wl = 0;
        for (size_t i = 0; i < (size_t)own; i++) want[wl++] = c[i];
        size_t rest = (e < n) ? e + 1 : e;
#ifdef DEMAND_COLOCATED
        {   /* what the property demands when another library shares the entry's line: only the entry itself goes */
            size_t k = (size_t)own + PLEN; int other = 0, comment = 0;
            for (; k < e; k++) { if (c[k] == '#') comment = 1; if (!comment && c[k] != ' ' && c[k] != '\t' && c[k] != ':') other = 1; }
            if (other) rest = (size_t)own + PLEN;
        }
#endif
        for (size_t i = rest; i < n; i++) want[wl++] = c[i];
        V_ASSERT(g_wopen_calls == 1 && g_fprintf_calls == 1, "C19: new content written back in one go");
        V_ASSERT(disk_is(want, wl, 1), "C19: result = old content with only the entry's line removed; every other line byte-identical and in order");
    }
#endif
    V_ASSERT(g_open_streams == 0, "C18/C19: no stream left open");
}

static void exit_oracle(int code) { g_exit_code = code; final_oracle(code != 0); }

void harness(void)
{
    V_HAVOC_IN();
    IN.content[CLEN] = '\0';
    g_n = strlen(IN.content);
    d_exists = !(IN.absent & 1);
    d_len = d_exists ? g_n : 0;
    for (size_t i = 0; i < d_len; i++) d_disk[i] = IN.content[i];
    d_oldexists = d_exists; d_oldlen = d_len;
    for (size_t i = 0; i < d_len; i++) d_old[i] = d_disk[i];
#if ACTION == 1 && defined(KF_colocated_entries_removed) && !defined(CRASH)
    /* known finding (C19): other entries sharing the entry's line are removed with it; exclude contents where the
     * own entry's line carries another token (anything but space / tab / ':' before a '#') */
    {
        int own = ref_own(d_old, d_oldlen);
        if (own >= 0) {
            size_t k = (size_t)own + PLEN; int other = 0, comment = 0;
            for (; k < d_oldlen && d_old[k] != '\n'; k++) {
                if (d_old[k] == '#') comment = 1;
                if (!comment && d_old[k] != ' ' && d_old[k] != '\t' && d_old[k] != ':') other = 1;
            }
            V_ASSUME(!other);
        }
    }
#endif
#if defined(CRASH) && defined(KF_truncate_then_write)
    /* known finding (C20): the file is rewritten by truncate-then-write; exclude crash points and failures inside
     * that window: only runs that die before the write-open or after the close are left */
    /* (the exclusion is state based, see crash_oracle) */
#endif
    g_ref_own = ref_own(d_old, d_oldlen);
    g_ref_active = ref_active_lines(d_old, d_oldlen);
#if ACTION == 0
    g_returned = snoopy_cli_action_enable();
#else
    g_returned = snoopy_cli_action_disable();
#endif
    final_oracle(g_returned != 0);
    V_WITNESS();
}
