/* C07: the filter chain is a conjunction of the known filters it names; unknown names and empty
 * elements are ignored; an empty chain passes.
 *
 * Real code: filtering.c, filterregistry.c, genericregistry.c.
 * The six filter *implementations* are replaced by pure recording stubs: verdict = table[id][class(arg)]
 * with a symbolic table, so the oracle can evaluate "the same filter on the same argument" itself and the
 * harness can check name->implementation binding and the argument text byte for byte.
 *
 * Mode TEMPLATE (default): chain = [;] e1 ;[;] e2 ;[;] e3 [;] with each element picked by symbolic
 *   selectors from {6 known names, an unknown name, the empty name} x {no arg, ':' + 0..2 symbolic bytes}.
 * Mode SYM (-DSYMLEN=n): chain = n arbitrary bytes.
 */
#define _GNU_SOURCE
#include <stdlib.h>
#include <string.h>
#include "snoopy.h"
#include "filtering.h"

#ifndef NELEM
#define NELEM 3
#endif
#ifndef SYMLEN
#define SYMLEN 6
#endif
#define ARGMAX 2
#define CHAINCAP (NELEM * 24 + 8)   /* >= NELEM*SLOT+3 */
#define NLOG 8

struct elem { unsigned char name, hasarg, arglen, sep2; char arg[ARGMAX]; };
struct in_t {
    struct elem e[NELEM];
    unsigned char lead, trail, nelem;
    unsigned char verdict[6][3];
    char sym[SYMLEN + 1];
};
#include "verif.h"
V_DEFINE_IN

static const char *const NAMES[8] = { "noop", "only_root", "only_uid", "exclude_uid", "only_tty", "exclude_spawns_of", "bogus", "" };

/* ---- recording stubs for the filter implementations --------------------- */
static int  g_ncalls;
static int  g_call_id[NLOG];
static char g_call_arg[NLOG][8];

static int arg_class(const char *a) { return a[0] == '\0' ? 0 : 1 + (a[0] & 1); }

static int stub(int id, const char *arg)
{
    if (g_ncalls < NLOG) {
        g_call_id[g_ncalls] = id;
        size_t n = 0;
        for (; n < 7 && arg[n] != '\0'; n++) g_call_arg[g_ncalls][n] = arg[n];
        g_call_arg[g_ncalls][n] = '\0';
    }
    g_ncalls++;
    return (IN.verdict[id][arg_class(arg)] & 1) ? SNOOPY_FILTER_PASS : SNOOPY_FILTER_DROP;
}
int snoopy_filter_noop(char const * const a)              { return stub(0, a); }
int snoopy_filter_only_root(char const * const a)         { return stub(1, a); }
int snoopy_filter_only_uid(char const * const a)          { return stub(2, a); }
int snoopy_filter_exclude_uid(char const * const a)       { return stub(3, a); }
int snoopy_filter_only_tty(char const * const a)          { return stub(4, a); }
int snoopy_filter_exclude_spawns_of(char const * const a) { return stub(5, a); }

static int name_eq(const char *nm, const char *p, size_t n)
{
    size_t k = 0;
    for (; k < n; k++) if (nm[k] == '\0' || nm[k] != p[k]) return 0;
    return nm[k] == '\0';
}

#ifndef MODE_SYM
/* Chain text is laid out in fixed-width slots padded with ';' (repeated separators are empty elements,
 * which the grammar ignores), so every byte sits at a CONCRETE index and is an if-then-else over the
 * symbolic selectors: no symbolic-index array writes (these made the SAT problem intractable). */
#define SLOT (17 + 1 + ARGMAX + 1)
void harness(void)
{
    char chain[NELEM * SLOT + 3];
    V_HAVOC_IN();
    V_ASSUME(IN.nelem <= NELEM);
    /* expected call sequence */
    int  x_n = 0, x_id[NELEM], x_drop_at = -1;
    char x_arg[NELEM][ARGMAX + 1];
    chain[0] = (IN.lead & 1) ? ';' : ';';         /* a leading ';' is always present; with IN.lead the first slot is shifted by a second one below */
    for (int i = 0; i < NELEM; i++) {
        struct elem *e = &IN.e[i];
        V_ASSUME(e->name < 8 && e->arglen <= ARGMAX);
#ifdef NAMESEL     /* partition: element names fixed per query (base-8 digits of NAMESEL) */
        { unsigned sel_ = (unsigned)NAMESEL; for (int j_ = 0; j_ < i; j_++) sel_ /= 8; e->name = (unsigned char)(sel_ % 8); }
#endif
        int present = (i < IN.nelem);
        const char *nm = NAMES[e->name];
        size_t nl = strlen(nm);
        int hasarg = (e->hasarg & 1);
        char a[ARGMAX + 1];
        for (int k = 0; k < ARGMAX; k++) {
            if (hasarg && k < e->arglen) V_ASSUME(e->arg[k] != ';' && e->arg[k] != '\0');
            a[k] = (hasarg && k < e->arglen) ? e->arg[k] : '\0';
        }
        a[ARGMAX] = '\0';
        for (size_t j = 0; j < SLOT; j++) {
            char c = ';';
            if (present) {
                if (j < nl) c = nm[j];
                else if (hasarg && j == nl) c = ':';
                else if (hasarg && j > nl && j - nl - 1 < ARGMAX && (int)(j - nl - 1) < e->arglen) c = e->arg[j - nl - 1];
            }
            chain[1 + i * SLOT + j] = c;
        }
        if (present && e->name < 6) {          /* known filter: must be consulted (unless an earlier one dropped) */
            x_id[x_n] = e->name;
            for (int k = 0; k <= ARGMAX; k++) x_arg[x_n][k] = a[k];
            if (x_drop_at < 0 && !(IN.verdict[e->name][arg_class(a)] & 1)) x_drop_at = x_n;
            x_n++;
        }
    }
    chain[1 + NELEM * SLOT] = (IN.trail & 1) ? ';' : '\0';
    chain[2 + NELEM * SLOT] = '\0';

    g_ncalls = 0;
    int v = snoopy_filtering_check_chain(chain);

    V_ASSERT(v == ((x_drop_at < 0) ? SNOOPY_FILTER_PASS : SNOOPY_FILTER_DROP), "C07: verdict is the conjunction of the known filters named in the chain");
    int x_calls = (x_drop_at < 0) ? x_n : x_drop_at + 1;
    V_ASSERT(g_ncalls == x_calls, "C07: exactly the known elements (up to the first drop) are consulted; unknown and empty ones ignored");
    for (int i = 0; i < NELEM; i++) {
        if (i >= x_calls || i >= g_ncalls) break;
        V_ASSERT(g_call_id[i] == x_id[i], "C07: name runs its own filter, in chain order");
        V_ASSERT(strcmp(g_call_arg[i], x_arg[i]) == 0, "C07: filter receives exactly the text after the first ':'");
    }
    V_WITNESS();
}
#else
/* fully symbolic short chain: oracle = independent re-parse */
void harness(void)
{
    V_HAVOC_IN();
    IN.sym[SYMLEN] = '\0';
    const char *s = IN.sym;
    size_t n = strlen(s);
    int expect = SNOOPY_FILTER_PASS, x_calls = 0;
    size_t i = 0;
    while (i < n && expect == SNOOPY_FILTER_PASS) {
        while (i < n && s[i] == ';') i++;
        if (i >= n) break;
        size_t b = i;
        while (i < n && s[i] != ';') i++;
        /* element s[b..i): name up to first ':' */
        size_t c = b;
        while (c < i && s[c] != ':') c++;
        int id = -1;
        for (int k = 0; k < 6; k++)
            if (name_eq(NAMES[k], s + b, c - b)) id = k;
        if (id >= 0) {
            char a0 = (c < i && c + 1 < i) ? s[c + 1] : '\0';
            char tmp[2] = { a0, 0 };
            x_calls++;
            if (!(IN.verdict[id][arg_class(tmp)] & 1)) expect = SNOOPY_FILTER_DROP;
        }
    }
    g_ncalls = 0;
    int v = snoopy_filtering_check_chain(IN.sym);
    V_ASSERT(v == expect, "C07: verdict is the conjunction of the known filters named in the chain (symbolic chain)");
    V_ASSERT(g_ncalls == x_calls, "C07: consulted filters = known elements up to the first drop (symbolic chain)");
    V_WITNESS();
}
#endif
