/* C11 (+ C16 heap residue of the configuration path): each call sees only the current configuration file,
 * nothing carried over; no double free, no growth.
 *
 * Real code: configuration.c, configfile.c, util/parser.c, util/syslog.c, util/string.c, outputregistry.c,
 *   genericregistry.c, init-deinit.c, inputdatastorage.c; TS variant adds tsrm.c + util/list.c (vthread model).
 * Model: ini_parse() delivers an arbitrary sequence of 0..NOPT option callbacks (section [snoopy], key from the
 *   option table or unknown, value up to VLEN arbitrary bytes), or reports the file absent / a parse error.
 *
 * History by induction: call A under file F1 (arbitrary), then call B under file F2; the settings B observes
 * must equal what the FIRST call of a fresh process observes under F2.  After every call the library holds
 * no heap memory (CBMC --memory-leak-check) and, in the NTS build, the record is back at the defaults.
 */
#ifndef _GNU_SOURCE
#define _GNU_SOURCE
#endif
#include <stdlib.h>
#include <string.h>
#include "snoopy.h"
#include "configuration.h"
#include "init-deinit.h"
#include "lib/inih/src/ini.h"
#ifdef SNOOPY_CONF_THREAD_SAFETY_ENABLED
#include "util/list-snoopy.h"
#include "vthread.h"
extern list_t snoopy_tsrm_threadRepo_data;
#else
extern snoopy_configuration_t snoopy_configuration_data;
#endif
#include "verif.h"

#ifndef NOPT
#define NOPT 2
#endif
#ifndef VLEN
#define VLEN 4
#endif

struct file_in { unsigned char absent, nopt, rc_err; unsigned char key[NOPT]; char val[NOPT][VLEN + 1]; };
struct in_t { struct file_in f1, f2; };
V_DEFINE_IN

static const char *const KEYS[11] = { "error_logging", "filter_chain", "message_format", "output", "syslog_facility", "syslog_ident",
                                      "syslog_level", "datasource_message_max_length", "log_message_max_length", "bogus_option", "" };
static const struct file_in *g_file;

int ini_parse(const char *filename, ini_handler handler, void *user)
{
    (void)filename;
    const struct file_in *f = g_file;
    if (f->absent & 1) return -1;                          /* file missing / unreadable */
    for (int k = 0; k < NOPT; k++) {
        if (k >= f->nopt) break;
#ifdef OUTPUT_TEMPLATE    /* values of the output option spelled from selectors: registered/unknown name, optional ':' + up to 2 bytes */
        if (f->key[k] == 3) {
            static const char *const ON[9] = { "devlog", "devnull", "devtty", "file", "socket", "stderr", "stdout", "noop", "nosuch" };
            char t[16]; size_t p = 0;
            const char *nm = ON[(unsigned char)f->val[k][0] % 9];
            for (size_t i = 0; nm[i] != '\0'; i++) t[p++] = nm[i];
            if (f->val[k][1] & 1) { t[p++] = ':'; for (int i = 2; i < 4 && f->val[k][i] != '\0'; i++) t[p++] = f->val[k][i]; }
            t[p] = '\0';
            handler(user, "snoopy", "output", t);
            continue;
        }
#endif
        handler(user, "snoopy", KEYS[f->key[k]], f->val[k]);
    }
    return (f->rc_err & 1) ? 3 : 0;                        /* a syntax error elsewhere in the file, or clean */
}

#define OUTSTUB(n) int n(char const * const m, char const * const a) { (void)m; (void)a; return 1; }
OUTSTUB(snoopy_output_devlogoutput) OUTSTUB(snoopy_output_devnulloutput) OUTSTUB(snoopy_output_devttyoutput)
OUTSTUB(snoopy_output_fileoutput) OUTSTUB(snoopy_output_socketoutput) OUTSTUB(snoopy_output_stderroutput)
OUTSTUB(snoopy_output_stdoutoutput) OUTSTUB(snoopy_output_syslogoutput) OUTSTUB(snoopy_output_noopoutput)
void snoopy_error_handler(char const * const m) { (void)m; }
#ifdef SNOOPY_CONF_THREAD_SAFETY_ENABLED
void v_interference(void) { }
#endif

/* what a call observes of its configuration */
struct obs { int el, fac, lev; size_t dl, ll; char mf[96], fc[VLEN + 2], out[12], oa[VLEN + 4], id[12]; };
static void scpy(char *d, size_t cap, const char *s) { size_t i = 0; for (; i + 1 < cap && s[i] != '\0'; i++) d[i] = s[i]; d[i] = '\0'; }
static void observe(struct obs *o)
{
    const snoopy_configuration_t *c = snoopy_configuration_get();
    o->el = c->error_logging_enabled; o->fac = c->syslog_facility; o->lev = c->syslog_level;
    o->dl = c->datasource_message_max_length; o->ll = c->log_message_max_length;
    scpy(o->mf, sizeof o->mf, c->message_format); scpy(o->fc, sizeof o->fc, c->filter_chain);
    scpy(o->out, sizeof o->out, c->output); scpy(o->oa, sizeof o->oa, c->output_arg); scpy(o->id, sizeof o->id, c->syslog_ident_format);
}
static int seq(const char *a, const char *b) { size_t i = 0; for (; a[i] != '\0' && a[i] == b[i]; i++) { } return a[i] == b[i]; }
static int same_obs(const struct obs *a, const struct obs *b)
{
    return a->el == b->el && a->fac == b->fac && a->lev == b->lev && a->dl == b->dl && a->ll == b->ll &&
           seq(a->mf, b->mf) && seq(a->fc, b->fc) && seq(a->out, b->out) && seq(a->oa, b->oa) && seq(a->id, b->id);
}

static int between_calls_clean(void)
{
#ifdef SNOOPY_CONF_THREAD_SAFETY_ENABLED
    return snoopy_tsrm_threadRepo_data.count == 0 && snoopy_tsrm_threadRepo_data.first == NULL && v_mutex_depth == 0;
#else
    const snoopy_configuration_t *c = &snoopy_configuration_data;
    return c->message_format_malloced == SNOOPY_FALSE && c->filter_chain_malloced == SNOOPY_FALSE && c->output_malloced == SNOOPY_FALSE &&
           c->output_arg_malloced == SNOOPY_FALSE && c->syslog_ident_format_malloced == SNOOPY_FALSE;
#endif
}

static void assume_file(const struct file_in *f)
{
    V_ASSUME(f->nopt <= NOPT);
    for (int k = 0; k < NOPT; k++) V_ASSUME(f->key[k] < 11);
}

static void one_call(const struct file_in *f, struct obs *o)
{
    g_file = f;
    snoopy_init();
    observe(o);
    snoopy_cleanup();
}

void harness(void)
{
    struct obs a, b, fresh;
    V_HAVOC_IN();
    assume_file(&IN.f1); assume_file(&IN.f2);
    for (int k = 0; k < NOPT; k++) { IN.f1.val[k][VLEN] = '\0'; IN.f2.val[k][VLEN] = '\0'; }

    one_call(&IN.f2, &fresh);                    /* first call of a fresh process under F2 */
    V_ASSERT(between_calls_clean(), "C11/C16: after a call no heap-allocated setting is retained");
    one_call(&IN.f1, &a);                        /* some earlier call under another configuration */
    V_ASSERT(between_calls_clean(), "C11/C16: after a call no heap-allocated setting is retained (2)");
    one_call(&IN.f2, &b);                        /* the call under test, again under F2 */
    V_ASSERT(same_obs(&b, &fresh), "C11: a call observes exactly the settings the first call of a fresh process would compute from the same file");
    V_ASSERT(between_calls_clean(), "C11/C16: after a call no heap-allocated setting is retained (3)");
    V_WITNESS();
}
