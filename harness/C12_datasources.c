/* C12: identity and environment data sources report the process's true state - i.e. each renders the RIGHT
 * query of the RIGHT object.  The environment (models/vsys.c) answers every query from the ghost record v_sys whose
 * fields are pairwise independent symbols, so a swapped or wrong query has a falsifying assignment.
 *
 * Real code: the data source selected with -DDS_<name> (+ util/pwd.c where used).  One query per data source.
 */
#ifndef _GNU_SOURCE
#define _GNU_SOURCE
#endif
#include <errno.h>
#include <stdlib.h>
#include <string.h>
#include <unistd.h>
#include <sys/syscall.h>
#include "snoopy.h"
#include "datasource/datasource-common.h"
#include "vsys.h"
#include "verif.h"

#ifndef BUFSZ
#define BUFSZ 24
#endif

struct in_t {
    unsigned short uid, euid, gid, egid, pid, ppid, sid, tid, tty_uid;
    unsigned short second;      /* value of the queried id at a SECOND evaluation in the same memory image (other thread / forked child) */
    unsigned char fl[12];
    char tty[V_NAMECAP], pw[V_NAMECAP], gr[V_NAMECAP], cwd[V_NAMECAP], host[V_NAMECAP], login[V_NAMECAP], tout[V_NAMECAP];
    char arg[6];
    char e0[8], e1[8];
    unsigned char nenv;
    int now; int usec;
    int ch[V_NCH];
};
V_DEFINE_IN

extern char **environ;
int snoopy_datasource_uid(char * const, size_t, char const * const);      int snoopy_datasource_euid(char * const, size_t, char const * const);
int snoopy_datasource_gid(char * const, size_t, char const * const);      int snoopy_datasource_egid(char * const, size_t, char const * const);
int snoopy_datasource_pid(char * const, size_t, char const * const);      int snoopy_datasource_ppid(char * const, size_t, char const * const);
int snoopy_datasource_sid(char * const, size_t, char const * const);      int snoopy_datasource_tid_kernel(char * const, size_t, char const * const);
int snoopy_datasource_username(char * const, size_t, char const * const); int snoopy_datasource_eusername(char * const, size_t, char const * const);
int snoopy_datasource_group(char * const, size_t, char const * const);    int snoopy_datasource_egroup(char * const, size_t, char const * const);
int snoopy_datasource_cwd(char * const, size_t, char const * const);      int snoopy_datasource_hostname(char * const, size_t, char const * const);
int snoopy_datasource_tty(char * const, size_t, char const * const);      int snoopy_datasource_tty_uid(char * const, size_t, char const * const);
int snoopy_datasource_tty_username(char * const, size_t, char const * const); int snoopy_datasource_login(char * const, size_t, char const * const);
int snoopy_datasource_env(char * const, size_t, char const * const);      int snoopy_datasource_env_all(char * const, size_t, char const * const);
int snoopy_datasource_datetime(char * const, size_t, char const * const); int snoopy_datasource_timestamp(char * const, size_t, char const * const);
int snoopy_datasource_timestamp_ms(char * const, size_t, char const * const); int snoopy_datasource_timestamp_us(char * const, size_t, char const * const);

static char buf[BUFSZ];

static void term(char *s, size_t n) { s[n - 1] = '\0'; }

/* the result is exactly the decimal rendering of v (optionally zero padded to `width`) */
static int is_dec(const char *s, unsigned long v, int width)
{
    size_t n = strnlen(s, BUFSZ);
    if (n == 0 || n >= BUFSZ) return 0;
    unsigned long acc = 0;
    for (size_t i = 0; i < n; i++) {
        if (s[i] < '0' || s[i] > '9') return 0;
        acc = acc * 10 + (unsigned long)(s[i] - '0');
    }
    if (width > 0) { if ((int)n != width && !(acc >= 1 && (int)n > width)) return 0; }
    else if (n > 1 && s[0] == '0') return 0;
    return acc == v;
}
static int same(const char *a, const char *b)
{
    size_t i = 0;
    for (; i < BUFSZ && a[i] != '\0' && a[i] == b[i]; i++) { }
    return i < BUFSZ && a[i] == b[i];
}

static void setup(void)
{
    V_HAVOC_IN();
    V_LOAD_CH();
    memset(&v_sys, 0, sizeof v_sys);
    v_sys.uid = IN.uid; v_sys.euid = IN.euid; v_sys.gid = IN.gid; v_sys.egid = IN.egid;
    v_sys.pid = IN.pid; v_sys.ppid = IN.ppid; v_sys.sid = IN.sid; v_sys.tid = IN.tid; v_sys.tty_uid = IN.tty_uid;
    v_sys.sid_fails = 0;
    v_sys.tty_rc = (IN.fl[0] & 1) ? ((IN.fl[0] & 2) ? ENOTTY : EBADF) : 0;
    v_sys.pw_rc = (IN.fl[1] & 1) ? EIO : 0; v_sys.pw_found = (IN.fl[1] >> 1) & 1;
    v_sys.gr_rc = (IN.fl[2] & 1) ? EIO : 0; v_sys.gr_found = (IN.fl[2] >> 1) & 1;
    v_sys.cwd_fails = IN.fl[3] & 1; v_sys.hostname_fails = IN.fl[4] & 1; v_sys.login_rc = (IN.fl[5] & 1) ? ENXIO : 0;
    v_sys.time_fails = IN.fl[6] & 1; v_sys.localtime_fails = IN.fl[7] & 1; v_sys.strftime_zero = IN.fl[8] & 1; v_sys.gtod_fails = IN.fl[9] & 1;
    IN.now &= 0xFFFF;        /* decimal rendering of large values is solver-hard; the binding does not depend on magnitude */
    v_sys.now = IN.now; v_sys.tv_sec = IN.now; v_sys.tv_usec = IN.usec;
    term(IN.tty, V_NAMECAP); term(IN.pw, V_NAMECAP); term(IN.gr, V_NAMECAP); term(IN.cwd, V_NAMECAP); term(IN.host, V_NAMECAP);
    term(IN.login, V_NAMECAP); term(IN.tout, V_NAMECAP); term(IN.arg, 6); term(IN.e0, 8); term(IN.e1, 8);
    V_ASSUME(IN.usec >= 0 && IN.usec <= 999999 && IN.now >= 0);
    memcpy(v_sys.tty, IN.tty, V_NAMECAP); memcpy(v_sys.pw_name, IN.pw, V_NAMECAP); memcpy(v_sys.gr_name, IN.gr, V_NAMECAP);
    memcpy(v_sys.cwd, IN.cwd, V_NAMECAP); memcpy(v_sys.hostname, IN.host, V_NAMECAP); memcpy(v_sys.login, IN.login, V_NAMECAP);
    memcpy(v_sys.strftime_out, IN.tout, V_NAMECAP);
    memset(buf, 0x55, sizeof buf);
    buf[0] = '\0';          /* the caller (message.c) hands over an empty string: sources that write nothing contribute nothing */
}

#define TERMINATED() V_ASSERT(strnlen(buf, BUFSZ) < BUFSZ, "C12/C02: result NUL-terminated inside its buffer")

/* every numeric source is evaluated twice: the second time the process state differs (another thread, a forked child);
 * the answer must follow the state at the time of the call, nothing may be kept from the first evaluation */
static void second_state(void)
{
    v_sys.uid = v_sys.euid = IN.second; v_sys.gid = v_sys.egid = IN.second;
    v_sys.pid = v_sys.ppid = v_sys.sid = v_sys.tid = IN.second; v_sys.tty_uid = IN.second;
    memset(buf, 0x55, sizeof buf); buf[0] = '\0';
}
#define NUMERIC(fn, ghost, msg) void harness(void) { setup(); fn(buf, BUFSZ, ""); TERMINATED(); V_ASSERT(is_dec(buf, (unsigned long)(ghost), 0), msg); \
    second_state(); fn(buf, BUFSZ, ""); TERMINATED(); V_ASSERT(is_dec(buf, (unsigned long)IN.second, 0), "C12: a later evaluation reports the state at THAT time (nothing cached from an earlier call)"); V_WITNESS(); }

#if defined(DS_uid)
NUMERIC(snoopy_datasource_uid, IN.uid, "C12: uid = real user id")
#elif defined(DS_euid)
NUMERIC(snoopy_datasource_euid, IN.euid, "C12: euid = effective user id")
#elif defined(DS_gid)
NUMERIC(snoopy_datasource_gid, IN.gid, "C12: gid = real group id")
#elif defined(DS_egid)
NUMERIC(snoopy_datasource_egid, IN.egid, "C12: egid = effective group id")
#elif defined(DS_pid)
NUMERIC(snoopy_datasource_pid, IN.pid, "C12: pid = process id")
#elif defined(DS_ppid)
NUMERIC(snoopy_datasource_ppid, IN.ppid, "C12: ppid = parent process id")
#elif defined(DS_sid)
void harness(void) { setup(); snoopy_datasource_sid(buf, BUFSZ, ""); TERMINATED();
    V_ASSERT(v_sys.getsid_arg == 0 || v_sys.getsid_arg == (pid_t)IN.pid, "C12: sid queried for the calling process");
    V_ASSERT(is_dec(buf, IN.sid, 0), "C12: sid = session id");
    second_state(); snoopy_datasource_sid(buf, BUFSZ, ""); TERMINATED();
    V_ASSERT(is_dec(buf, IN.second, 0), "C12: a later evaluation of sid reports the state at that time"); V_WITNESS(); }
#elif defined(DS_tid_kernel)
void harness(void) { setup(); V_ASSUME(IN.tid != 0); snoopy_datasource_tid_kernel(buf, BUFSZ, ""); TERMINATED();
    V_ASSERT(v_sys.syscall_nr == SYS_gettid, "C12: tid_kernel asks the kernel for gettid");
    V_ASSERT(is_dec(buf, IN.tid, 0), "C12: tid_kernel = kernel thread id");
    V_ASSUME(IN.second != 0);
    second_state(); snoopy_datasource_tid_kernel(buf, BUFSZ, ""); TERMINATED();
    V_ASSERT(is_dec(buf, IN.second, 0), "C12: a later evaluation of tid_kernel (another thread, a forked child) reports ITS thread id"); V_WITNESS(); }
#elif defined(DS_username) || defined(DS_eusername)
void harness(void) { setup();
#ifdef DS_username
    snoopy_datasource_username(buf, BUFSZ, ""); unsigned want = IN.uid;
#else
    snoopy_datasource_eusername(buf, BUFSZ, ""); unsigned want = IN.euid;
#endif
    TERMINATED();
    V_ASSERT(v_sys.n_getpw == 1 && v_sys.pw_uid_asked == want, "C12: (e)username looks up the passwd entry of the matching (real/effective) uid");
    if (v_sys.pw_rc == 0 && v_sys.pw_found) V_ASSERT(same(buf, IN.pw), "C12: (e)username = name of the passwd entry");
    else V_ASSERT(buf[0] != '\0', "C12: no passwd entry / lookup error => a placeholder text");
    V_WITNESS(); }
#elif defined(DS_group) || defined(DS_egroup)
void harness(void) { setup();
#ifdef DS_group
    snoopy_datasource_group(buf, BUFSZ, ""); unsigned want = IN.gid;
#else
    snoopy_datasource_egroup(buf, BUFSZ, ""); unsigned want = IN.egid;
#endif
    TERMINATED();
    V_ASSERT(v_sys.n_getgr == 1 && v_sys.gr_gid_asked == want, "C12: (e)group looks up the group entry of the matching (real/effective) gid");
    if (v_sys.gr_rc == 0 && v_sys.gr_found) V_ASSERT(same(buf, IN.gr), "C12: (e)group = name of the group entry");
    else V_ASSERT(buf[0] != '\0', "C12: no group entry / lookup error => a placeholder text");
    V_WITNESS(); }
#elif defined(DS_cwd)
void harness(void) { setup(); int r = snoopy_datasource_cwd(buf, BUFSZ, "");
    if (!v_sys.cwd_fails) { TERMINATED(); V_ASSERT(same(buf, IN.cwd), "C12: cwd = current working directory"); }
    else V_ASSERT(SNOOPY_DATASOURCE_FAILED(r), "C12: cwd reports failure when the directory cannot be determined");
    V_WITNESS(); }
#elif defined(DS_hostname)
void harness(void) { setup(); snoopy_datasource_hostname(buf, BUFSZ, ""); TERMINATED();
    if (!v_sys.hostname_fails) V_ASSERT(same(buf, IN.host), "C12: hostname = host name");
    V_WITNESS(); }
#elif defined(DS_tty)
void harness(void) { setup(); snoopy_datasource_tty(buf, BUFSZ, ""); TERMINATED();
    V_ASSERT(v_sys.ttyname_fd == 0, "C12: tty queries standard input");
    if (v_sys.tty_rc == 0) V_ASSERT(same(buf, IN.tty), "C12: tty = terminal of standard input");
    else V_ASSERT(buf[0] == '(' || buf[0] == 'E', "C12: no terminal => placeholder");
    V_WITNESS(); }
#elif defined(DS_tty_uid)
void harness(void) { setup(); snoopy_datasource_tty_uid(buf, BUFSZ, ""); TERMINATED();
    V_ASSERT(v_sys.ttyname_fd == 0, "C12: tty_uid queries standard input");
    if (v_sys.tty_rc == 0 && v_ch_n >= 1 && !(v_ch[0] & 1)) {
        V_ASSERT(strncmp(v_sys.stat_path, IN.tty, V_NAMECAP) == 0, "C12: tty_uid stats the terminal of standard input");
        V_ASSERT(is_dec(buf, IN.tty_uid, 0), "C12: tty_uid = owner of the terminal");
    }
    V_WITNESS(); }
#elif defined(DS_tty_username)
void harness(void) { setup(); snoopy_datasource_tty_username(buf, BUFSZ, ""); TERMINATED();
    if (v_sys.tty_rc == 0 && v_sys.n_getpw > 0) V_ASSERT(v_sys.pw_uid_asked == IN.tty_uid, "C12: tty_username looks up the owner of the terminal");
    if (v_sys.tty_rc == 0 && v_sys.n_getpw > 0 && v_sys.pw_rc == 0 && v_sys.pw_found) V_ASSERT(same(buf, IN.pw), "C12: tty_username = name of the terminal's owner");
    V_WITNESS(); }
#elif defined(DS_login)
void harness(void) { setup();
    static char *envv[3]; envv[0] = IN.e0; envv[1] = (IN.nenv & 1) ? IN.e1 : NULL; envv[2] = NULL; environ = envv;
    snoopy_datasource_login(buf, BUFSZ, ""); TERMINATED();
    if (v_sys.login_rc == 0) V_ASSERT(same(buf, IN.login), "C12: login = login name of the session");
    V_WITNESS(); }
#elif defined(DS_env)
void harness(void) { setup();
    static char *envv[3]; envv[0] = IN.e0; envv[1] = (IN.nenv & 1) ? IN.e1 : NULL; envv[2] = NULL; environ = envv;
    snoopy_datasource_env(buf, BUFSZ, IN.arg); TERMINATED();
    V_ASSERT(strncmp(v_sys.getenv_name, IN.arg, 6) == 0, "C12: env:VAR asks for exactly VAR");
    /* reference lookup */
    const char *val = NULL; size_t al = strlen(IN.arg);
    for (int k = 0; k < 2 && envv[k] != NULL && val == NULL; k++)
        if (al > 0 && strncmp(envv[k], IN.arg, al) == 0 && envv[k][al] == '=') val = envv[k] + al + 1;
    if (val != NULL) V_ASSERT(same(buf, val), "C12: env:VAR = value of VAR");
    else V_ASSERT(same(buf, "(undefined)"), "C12: env:VAR of an unset variable = (undefined)");
    V_WITNESS(); }
#elif defined(DS_env_all)
void harness(void) { setup();
    static char *envv[3]; envv[0] = (IN.nenv & 2) ? NULL : IN.e0; envv[1] = (IN.nenv & 1) ? IN.e1 : NULL; envv[2] = NULL; environ = envv;
#ifdef ENV_NULL
    environ = NULL; envv[0] = NULL;                            /* after clearenv() glibc leaves environ == NULL */
#endif
    int r = snoopy_datasource_env_all(buf, BUFSZ, ""); TERMINATED();
    char want[20]; size_t w = 0;
    if (envv[0] != NULL) { for (size_t i = 0; IN.e0[i]; i++) want[w++] = IN.e0[i];
        if (envv[1] != NULL) { want[w++] = ','; for (size_t i = 0; IN.e1[i]; i++) want[w++] = IN.e1[i]; } }
    want[w] = '\0';
    if (w + 4 < BUFSZ) V_ASSERT(r == (int)w && same(buf, want), "C12: env_all = all environment entries joined by ','");
    else V_ASSERT(r >= 0 && r < BUFSZ && strnlen(buf, BUFSZ) == (size_t)r, "C02: truncated env_all stays inside its buffer and reports its true length");
    V_WITNESS(); }
#elif defined(DS_datetime)
void harness(void) { setup(); snoopy_datasource_datetime(buf, BUFSZ, IN.arg); TERMINATED();
    if (!v_sys.time_fails && !v_sys.localtime_fails) {
        V_ASSERT(v_sys.localtime_arg == IN.now, "C12: datetime formats the current time");
        if (IN.arg[0] != '\0') V_ASSERT(strncmp(v_sys.strftime_fmt, IN.arg, 6) == 0, "C12: datetime:fmt passes fmt to strftime");
        else V_ASSERT(strcmp(v_sys.strftime_fmt, "%FT%T%z") == 0, "C12: datetime without argument uses the ISO 8601 default format");
        if (!v_sys.strftime_zero && IN.tout[0] != '\0') V_ASSERT(same(buf, IN.tout), "C12: datetime = strftime's text");
    }
    V_WITNESS(); }
#elif defined(DS_rpname)
/* rpname = kernel name of the ancestor (or the process itself) whose parent is pid 1 (or 0), read from /proc/<pid>/status */
#include "vfs.h"
int snoopy_datasource_rpname(char * const, size_t, char const * const);
#define RP_TEXT 24
static char g_st[2][RP_TEXT];        /* status files of the process (pid 50) and of its parent (pid 40) */
static int g_foreign_path;
static void render_status(int i, const char *nm, unsigned nl, const char *ppid2)
{
    /* "Name:\t<name>\nPPid:\t<pp>\n" with every byte at a concrete index */
    const char tail[10] = { '\n', 'P', 'P', 'i', 'd', ':', '\t', ppid2[0], ppid2[1], '\n' };
    char *t = g_st[i];
    t[0] = 'N'; t[1] = 'a'; t[2] = 'm'; t[3] = 'e'; t[4] = ':'; t[5] = '\t';
    for (unsigned j = 0; j < 3 + 10; j++) t[6 + j] = (j < nl) ? nm[j] : ((j - nl < 10) ? tail[j - nl] : '\0');
    t[6 + 13] = '\0';
}
void v_fs_lookup(const char *path, struct v_vfile *out)
{
    out->exists = 0;
    if (strcmp(path, "/proc/50/status") == 0) { out->exists = 1; out->content = g_st[0]; out->len = strlen(g_st[0]); }
    else if (strcmp(path, "/proc/40/status") == 0) { out->exists = 1; out->content = g_st[1]; out->len = strlen(g_st[1]); }
    else g_foreign_path = 1;
}
void harness(void)
{
    setup();
    v_sys.pid = 50;
#ifdef RP_DIRECT
    int direct = RP_DIRECT;                         /* partition: the process itself is / is not a child of pid 1 */
#else
    int direct = IN.nenv & 1;
#endif
#ifdef RP_NOFAULTS
    for (int i_ = 0; i_ < V_NCH; i_++) v_ch[i_] = 0;   /* partition: every procfs call succeeds (faults: separate query with fixed names) */
#endif
#ifdef RP_FIXEDNAMES
    IN.e0[0] = 'a'; IN.e0[1] = ' '; IN.e0[2] = 'b'; IN.e1[0] = 'c'; IN.e1[1] = ':'; IN.e1[2] = 'd'; IN.fl[10] = 2; IN.fl[11] = 2;
#endif
    for (int k = 0; k < 3; k++) { V_ASSUME(IN.e0[k] != '\n' && IN.e0[k] != '\0'); V_ASSUME(IN.e1[k] != '\n' && IN.e1[k] != '\0'); }
#ifdef RP_NL0      /* partition: name lengths fixed per query so that every file offset is concrete */
    unsigned nl0 = RP_NL0, nl1 = RP_NL1;
#else
    unsigned nl0 = 1 + (IN.fl[10] % 3), nl1 = 1 + (IN.fl[11] % 3);
#endif
    render_status(0, IN.e0, nl0, direct ? " 1" : "40");
    render_status(1, IN.e1, nl1, (IN.nenv & 2) ? " 0" : " 1");
    v_fs_reset(); v_no_short_reads = 1; g_foreign_path = 0;
    snoopy_datasource_rpname(buf, BUFSZ, "");
    TERMINATED();
    V_ASSERT(v_open_streams == 0, "C03/C16: every procfs stream is closed on every path");
    V_ASSERT(!g_foreign_path, "C12: rpname reads only the status files of the process and its ancestors");
    const char *want = direct ? IN.e0 : IN.e1; unsigned wl = direct ? nl0 : nl1;
    int is_want = (strnlen(buf, BUFSZ) == wl);
    for (unsigned k = 0; k < wl && is_want; k++) if (buf[k] != want[k]) is_want = 0;
    int expected_opens = direct ? 2 : 3;
    if (v_fopen_ok == expected_opens && v_fopen_calls == expected_opens)
        V_ASSERT(is_want, "C12: rpname = name of the ancestor whose parent is pid 1 (or 0), exactly as the kernel reports it");
    else
        V_ASSERT(is_want || same(buf, "(unknown)"), "C03: unreadable process tree => (unknown)");
    V_WITNESS();
}
#elif defined(DS_timestamp)
void harness(void) { setup(); snoopy_datasource_timestamp(buf, BUFSZ, ""); TERMINATED();
    if (!v_sys.gtod_fails) V_ASSERT(is_dec(buf, (unsigned long)IN.now, 0), "C12: timestamp = seconds of the current time"); V_WITNESS(); }
#elif defined(DS_timestamp_ms)
void harness(void) { setup(); snoopy_datasource_timestamp_ms(buf, BUFSZ, ""); TERMINATED();
    if (!v_sys.gtod_fails) V_ASSERT(is_dec(buf, (unsigned long)(IN.usec / 1000), 3), "C12: timestamp_ms = milliseconds of the current time, 3 digits"); V_WITNESS(); }
#elif defined(DS_timestamp_us)
void harness(void) { setup(); snoopy_datasource_timestamp_us(buf, BUFSZ, ""); TERMINATED();
    if (!v_sys.gtod_fails) V_ASSERT(is_dec(buf, (unsigned long)IN.usec, 6), "C12: timestamp_us = microseconds of the current time, 6 digits"); V_WITNESS(); }
#endif
