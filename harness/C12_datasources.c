/* C12: identity and environment data sources report the process's true state - i.e. each renders the RIGHT
 * query of the RIGHT object.  The environment (models/vsys.c) answers every query from the ghost record v_sys whose
 * fields are pairwise independent symbols, so a swapped or wrong query has a falsifying assignment.
 *
 * Real code: the data source selected with -DDS_<name> (+ util/pwd.c where used).  One query per data source.
 */
#ifndef _GNU_SOURCE
#define _GNU_SOURCE
#endif
#include <errno.h>
#include <stdlib.h>
#include <string.h>
#include <unistd.h>
#include <sys/syscall.h>
#include "snoopy.h"
#include "datasource/datasource-common.h"
#include "vsys.h"
#include "verif.h"

#ifndef BUFSZ
#define BUFSZ 24
#endif

struct in_t {
    unsigned short uid, euid, gid, egid, pid, ppid, sid, tid, tty_uid;
    unsigned short second;      /* value of the queried id at a SECOND evaluation in the same memory image (other thread / forked child) */
    unsigned char fl[12];
    char tty[V_NAMECAP], pw[V_NAMECAP], gr[V_NAMECAP], cwd[V_NAMECAP], host[V_NAMECAP], login[V_NAMECAP], tout[V_NAMECAP];
    char arg[6];
    char e0[8], e1[8];
    unsigned char nenv;
    int now; int usec;
    int ch[V_NCH];
};
V_DEFINE_IN

extern char **environ;
int snoopy_datasource_uid(char * const, size_t, char const * const);      int snoopy_datasource_euid(char * const, size_t, char const * const);
int snoopy_datasource_gid(char * const, size_t, char const * const);      int snoopy_datasource_egid(char * const, size_t, char const * const);
int snoopy_datasource_pid(char * const, size_t, char const * const);      int snoopy_datasource_ppid(char * const, size_t, char const * const);
int snoopy_datasource_sid(char * const, size_t, char const * const);      int snoopy_datasource_tid_kernel(char * const, size_t, char const * const);
int snoopy_datasource_username(char * const, size_t, char const * const); int snoopy_datasource_eusername(char * const, size_t, char const * const);
int snoopy_datasource_group(char * const, size_t, char const * const);    int snoopy_datasource_egroup(char * const, size_t, char const * const);
int snoopy_datasource_cwd(char * const, size_t, char const * const);      int snoopy_datasource_hostname(char * const, size_t, char const * const);
int snoopy_datasource_tty(char * const, size_t, char const * const);      int snoopy_datasource_tty_uid(char * const, size_t, char const * const);
int snoopy_datasource_tty_username(char * const, size_t, char const * const); int snoopy_datasource_login(char * const, size_t, char const * const);
int snoopy_datasource_env(char * const, size_t, char const * const);      int snoopy_datasource_env_all(char * const, size_t, char const * const);
int snoopy_datasource_datetime(char * const, size_t, char const * const); int snoopy_datasource_timestamp(char * const, size_t, char const * const);
int snoopy_datasource_timestamp_ms(char * const, size_t, char const * const); int snoopy_datasource_timestamp_us(char * const, size_t, char const * const);

static char buf[BUFSZ];

static void term(char *s, size_t n) { s[n - 1] = '\0'; }

/* the result is exactly the decimal rendering of v (optionally zero padded to `width`) */
static int is_dec(const char *s, unsigned long v, int width)
{
    size_t n = strnlen(s, BUFSZ);
    if (n == 0 || n >= BUFSZ) return 0;
    unsigned long acc = 0;
    for (size_t i = 0; i < n; i++) {
        if (s[i] < '0' || s[i] > '9') return 0;
        acc = acc * 10 + (unsigned long)(s[i] - '0');
    }
    if (width > 0) { if ((int)n != width && !(acc >= 1 && (int)n > width)) return 0; }
    else if (n > 1 && s[0] == '0') return 0;
    return acc == v;
}
static int same(const char *a, const char *b)
{
    size_t i = 0;
    for (; i < BUFSZ && a[i] != '\0' && a[i] == b[i]; i++) { }
    return i < BUFSZ && a[i] == b[i];
}

static void setup(void)
{
    V_HAVOC_IN();
    V_LOAD_CH();
    memset(&v_sys, 0, sizeof v_sys);
    v_sys.uid = IN.uid; v_sys.euid = IN.euid; v_sys.gid = IN.gid; v_sys.egid = IN.egid;
    v_sys.pid = IN.pid; v_sys.ppid = IN.ppid; v_sys.sid = IN.sid; v_sys.tid = IN.tid; v_sys.tty_uid = IN.tty_uid;
    v_sys.sid_fails = 0;
    v_sys.tty_rc = (IN.fl[0] & 1) ? ((IN.fl[0] & 2) ? ENOTTY : EBADF) : 0;
    v_sys.pw_rc = (IN.fl[1] & 1) ? EIO : 0; v_sys.pw_found = (IN.fl[1] >> 1) & 1;
    v_sys.gr_rc = (IN.fl[2] & 1) ? EIO : 0; v_sys.gr_found = (IN.fl[2] >> 1) & 1;
    v_sys.cwd_fails = IN.fl[3] & 1; v_sys.hostname_fails = IN.fl[4] & 1; v_sys.login_rc = (IN.fl[5] & 1) ? ENXIO : 0;
    v_sys.time_fails = IN.fl[6] & 1; v_sys.localtime_fails = IN.fl[7] & 1; v_sys.strftime_zero = IN.fl[8] & 1; v_sys.gtod_fails = IN.fl[9] & 1;
    IN.now &= 0xFFFF;        /* decimal rendering of large values is solver-hard; the binding does not depend on magnitude */
    v_sys.now = IN.now; v_sys.tv_sec = IN.now; v_sys.tv_usec = IN.usec;
    term(IN.tty, V_NAMECAP); term(IN.pw, V_NAMECAP); term(IN.gr, V_NAMECAP); term(IN.cwd, V_NAMECAP); term(IN.host, V_NAMECAP);
    term(IN.login, V_NAMECAP); term(IN.tout, V_NAMECAP); term(IN.arg, 6); term(IN.e0, 8); term(IN.e1, 8);
    V_ASSUME(IN.usec >= 0 && IN.usec <= 999999 && IN.now >= 0);
    memcpy(v_sys.tty, IN.tty, V_NAMECAP); memcpy(v_sys.pw_name, IN.pw, V_NAMECAP); memcpy(v_sys.gr_name, IN.gr, V_NAMECAP);
    memcpy(v_sys.cwd, IN.cwd, V_NAMECAP); memcpy(v_sys.hostname, IN.host, V_NAMECAP); memcpy(v_sys.login, IN.login, V_NAMECAP);
    memcpy(v_sys.strftime_out, IN.tout, V_NAMECAP);
    memset(buf, 0x55, sizeof buf);
    buf[0] = '\0';          /* the caller (message.c) hands over an empty string: sources that write nothing contribute nothing */
}

#define TERMINATED() V_ASSERT(strnlen(buf, BUFSZ) < BUFSZ, "C12/C02: result NUL-terminated inside its buffer")

/* every numeric source is evaluated twice: the second time the process state differs (another thread, a forked child);
 * the answer must follow the state at the time of the call, nothing may be kept from the first evaluation */
static void second_state(void)
{
    v_sys.uid = v_sys.euid = IN.second; v_sys.gid = v_sys.egid = IN.second;
    v_sys.pid = v_sys.ppid = v_sys.sid = v_sys.tid = IN.second; v_sys.tty_uid = IN.second;
    memset(buf, 0x55, sizeof buf); buf[0] = '\0';
}
#define NUMERIC(fn, ghost, msg) void harness(void) { setup(); fn(buf, BUFSZ, ""); TERMINATED(); V_ASSERT(is_dec(buf, (unsigned long)(ghost), 0), msg); \
    second_state(); fn(buf, BUFSZ, ""); TERMINATED(); V_ASSERT(is_dec(buf, (unsigned long)IN.second, 0), "C12: a later evaluation reports the state at THAT time (nothing cached from an earlier call)"); V_WITNESS(); }

#if defined(DS_uid)
NUMERIC(snoopy_datasource_uid, IN.uid, "C12: uid = real user id")
#elif defined(DS_euid)
NUMERIC(snoopy_datasource_euid, IN.euid, "C12: euid = effective user id")
#elif defined(DS_gid)
NUMERIC(snoopy_datasource_gid, IN.gid, "C12: gid = real group id")
#elif defined(DS_egid)
NUMERIC(snoopy_datasource_egid, IN.egid, "C12: egid = effective group id")
#elif defined(DS_pid)
NUMERIC(snoopy_datasource_pid, IN.pid, "C12: pid = process id")
#elif defined(DS_ppid)
NUMERIC(snoopy_datasource_ppid, IN.ppid, "C12: ppid = parent process id")
#elif defined(DS_sid)
void harness(void) { setup(); snoopy_datasource_sid(buf, BUFSZ, ""); TERMINATED();
    V_ASSERT(v_sys.getsid_arg == 0 || v_sys.getsid_arg == (pid_t)IN.pid, "C12: sid queried for the calling process");
    V_ASSERT(is_dec(buf, IN.sid, 0), "C12: sid = session id");
    second_state(); snoopy_datasource_sid(buf, BUFSZ, ""); TERMINATED();
    V_ASSERT(is_dec(buf, IN.second, 0), "C12: a later evaluation of sid reports the state at that time"); V_WITNESS(); }
#elif defined(DS_tid_kernel)
void harness(void) { setup(); V_ASSUME(IN.tid != 0); snoopy_datasource_tid_kernel(buf, BUFSZ, ""); TERMINATED();
    V_ASSERT(v_sys.syscall_nr == SYS_gettid, "C12: tid_kernel asks the kernel for gettid");
    V_ASSERT(is_dec(buf, IN.tid, 0), "C12: tid_kernel = kernel thread id");
    V_ASSUME(IN.second != 0);
    second_state(); snoopy_datasource_tid_kernel(buf, BUFSZ, ""); TERMINATED();
    V_ASSERT(is_dec(buf, IN.second, 0), "C12: a later evaluation of tid_kernel (another thread, a forked child) reports ITS thread id"); V_WITNESS(); }
#elif defined(DS_username) || defined(DS_eusername)
void harness(void) { setup();
#ifdef DS_username
    snoopy_datasource_username(buf, BUFSZ, ""); unsigned want = IN.uid;
#else
    snoopy_datasource_eusername(buf, BUFSZ, ""); unsigned want = IN.euid;
#endif
    TERMINATED();
    V_ASSERT(v_sys.n_getpw == 1 && v_sys.pw_uid_asked == want, "C12: (e)username looks up the passwd entry of the matching (real/effective) uid");
    if (v_sys.pw_rc == 0 && v_sys.pw_found) V_ASSERT(same(buf, IN.pw), "C12: (e)username = name of the passwd entry");
    else V_ASSERT(buf[0] != '\0', "C12: no passwd entry / lookup error => a placeholder text");
    V_WITNESS(); }
#elif defined(DS_group) || defined(DS_egroup)
void harness(void) { setup();
#ifdef DS_group
    snoopy_datasource_group(buf, BUFSZ, ""); unsigned want = IN.gid;
#else
    snoopy_datasource_egroup(buf, BUFSZ, ""); unsigned want = IN.egid;
#endif
    TERMINATED();
    V_ASSERT(v_sys.n_getgr == 1 && v_sys.gr_gid_asked == want, "C12: (e)group looks up the group entry of the matching (real/effective) gid");
    if (v_sys.gr_rc == 0 && v_sys.gr_found) V_ASSERT(same(buf, IN.gr), "C12: (e)group = name of the group entry");
    else V_ASSERT(buf[0] != '\0', "C12: no group entry / lookup error => a placeholder text");
    V_WITNESS(); }
#elif defined(DS_cwd)
void harness(void) { setup(); int r = snoopy_datasource_cwd(buf, BUFSZ, "");
    if (!v_sys.cwd_fails) { TERMINATED(); V_ASSERT(same(buf, IN.cwd), "C12: cwd = current working directory"); }
    else V_ASSERT(SNOOPY_DATASOURCE_FAILED(r), "C12: cwd reports failure when the directory cannot be determined");
    V_WITNESS(); }
#elif defined(DS_hostname)
void harness(void) { setup(); snoopy_datasource_hostname(buf, BUFSZ, ""); TERMINATED();
    if (!v_sys.hostname_fails) V_ASSERT(same(buf, IN.host), "C12: hostname = host name");
    V_WITNESS(); }
#elif defined(DS_tty)
void harness(void) { setup(); snoopy_datasource_tty(buf, BUFSZ, ""); TERMINATED();
    V_ASSERT(v_sys.ttyname_fd == 0, "C12: tty queries standard input");
    if (v_sys.tty_rc == 0) V_ASSERT(same(buf, IN.tty), "C12: tty = terminal of standard input");
    else V_ASSERT(buf[0] == '(' || buf[0] == 'E', "C12: no terminal => placeholder");
    V_WITNESS(); }
#elif defined(DS_tty_uid)
void harness(void) { setup(); snoopy_datasource_tty_uid(buf, BUFSZ, ""); TERMINATED();
    V_ASSERT(v_sys.ttyname_fd == 0, "C12: tty_uid queries standard input");
    if (v_sys.tty_rc == 0 && v_ch_n >= 1 && !(v_ch[0] & 1)) {
        V_ASSERT(strncmp(v_sys.stat_path, IN.tty, V_NAMECAP) == 0, "C12: tty_uid stats the terminal of standard input");
        V_ASSERT(is_dec(buf, IN.tty_uid, 0), "C12: tty_uid = owner of the terminal");
    }
    V_WITNESS(); }
#elif defined(DS_tty_username)
void harness(void) { setup(); snoopy_datasource_tty_username(buf, BUFSZ, ""); TERMINATED();
    if (v_sys.tty_rc == 0 && v_sys.n_getpw > 0) V_ASSERT(v_sys.pw_uid_asked == IN.tty_uid, "C12: tty_username looks up the owner of the terminal");
    if (v_sys.tty_rc == 0 && v_sys.n_getpw > 0 && v_sys.pw_rc == 0 && v_sys.pw_found) V_ASSERT(same(buf, IN.pw), "C12: tty_username = name of the terminal's owner");
    V_WITNESS(); }
#elif defined(DS_login)
void harness(void) { setup();
    static char *envv[3]; envv[0] = IN.e0; envv[1] = (IN.nenv & 1) ? IN.e1 : NULL; envv[2] = NULL; environ = envv;
    snoopy_datasource_login(buf, BUFSZ, ""); TERMINATED();
    if (v_sys.login_rc == 0) V_ASSERT(same(buf, IN.login), "C12: login = login name of the session");
    V_WITNESS(); }
#elif defined(DS_env)
void harness(void) { setup();
    static char *envv[3]; envv[0] = IN.e0; envv[1] = (IN.nenv & 1) ? IN.e1 : NULL; envv[2] = NULL; environ = envv;
    snoopy_datasource_env(buf, BUFSZ, IN.arg); TERMINATED();
    V_ASSERT(strncmp(v_sys.getenv_name, IN.arg, 6) == 0, "C12: env:VAR asks for exactly VAR");
    /* reference lookup */
    const char *val = NULL; size_t al = strlen(IN.arg);
    for (int k = 0; k < 2 && envv[k] != NULL && val == NULL; k++)
        if (al > 0 && strncmp(envv[k], IN.arg, al) == 0 && envv[k][al] == '=') val = envv[k] + al + 1;
    if (val != NULL) V_ASSERT(same(buf, val), "C12: env:VAR = value of VAR");
    else V_ASSERT(same(buf, "(undefined)"), "C12: env:VAR of an unset variable = (undefined)");
    V_WITNESS(); }
#elif defined(DS_env_all)
void harness(void) { setup();
    static char *envv[3]; envv[0] = (IN.nenv & 2) ? NULL : IN.e0; envv[1] = (IN.nenv & 1) ? IN.e1 : NULL; envv[2] = NULL; environ = envv;
#ifdef ENV_NULL
    environ = NULL; envv[0] = NULL;                            /* after clearenv() glibc leaves environ == NULL */
#endif
    int r = snoopy_datasource_env_all(buf, BUFSZ, ""); TERMINATED();
    char want[20]; size_t w = 0;
    if (envv[0] != NULL) { for (size_t i = 0; IN.e0[i]; i++) want[w++] = IN.e0[i];
        if (envv[1] != NULL) { want[w++] = ','; for (size_t i = 0; IN.e1[i]; i++) want[w++] = IN.e1[i]; } }
    want[w] = '\0';
    if (w + 4 < BUFSZ) V_ASSERT(r == (int)w && same(buf, want), "C12: env_all = all environment entries joined by ','");
    else V_ASSERT(r >= 0 && r < BUFSZ && strnlen(buf, BUFSZ) == (size_t)r, "C02: truncated env_all stays inside its buffer and reports its true length");
    V_WITNESS(); }
#elif defined(DS_datetime)
void harness(void) { setup(); snoopy_datasource_datetime(buf, BUFSZ, IN.arg); TERMINATED();
    if (!v_sys.time_fails && !v_sys.localtime_fails) {
        V_ASSERT(v_sys.localtime_arg == IN.now, "C12: datetime formats the current time");
        if (IN.arg[0] != '\0') V_ASSERT(strncmp(v_sys.strftime_fmt, IN.arg, 6) == 0, "C12: datetime:fmt passes fmt to strftime");
        else V_ASSERT(strcmp(v_sys.strftime_fmt, "%FT%T%z") == 0, "C12: datetime without argument uses the ISO 8601 default format");
        if (!v_sys.strftime_zero && IN.tout[0] != '\0') V_ASSERT(same(buf, IN.tout), "C12: datetime = strftime's text");
    }
    V_WITNESS(); }
#elif defined(DS_rpname)
/* rpname = kernel name of the ancestor (or the process itself) whose parent is pid 1 (or 0), read from /proc/<pid>/status.
 * procfs is modelled here, line by line (the general stream model of vfs.c has to search symbolic text for newlines, which
 * does not finish on this unit): getline() hands out the next line of the status file of pid 50 (the process) or pid 40 (its
 * parent); names are symbolic bytes (spaces, tabs, colons allowed), fopen may fail at every call. */
#include <stdio.h>
#include <sys/types.h>
int snoopy_datasource_rpname(char * const, size_t, char const * const);
#define RP_LINE 12
#define RP_NLINES 3
#ifndef RP_DEPTH
#define RP_DEPTH 2                  /* ancestors modelled: the process (pid 50), its parent (40)[, its grandparent (30)] */
#endif
struct rp_file { char line[RP_NLINES][RP_LINE]; int pos; int open; };
static struct rp_file g_rp[3];
static int g_rp_opens, g_rp_ok, g_rp_open_now, g_rp_foreign;
FILE *fopen(const char *path, const char *mode)
{
    int i;
    (void)mode;
    g_rp_opens++;
    V_ASSERT(g_rp_opens <= 6, "C12: rpname walks a two-level process tree with at most three reads");
    if (strcmp(path, "/proc/50/status") == 0 || strcmp(path, "/proc/self/status") == 0) i = 0;
    else if (strcmp(path, "/proc/40/status") == 0) i = 1;
    else if (RP_DEPTH > 2 && strcmp(path, "/proc/30/status") == 0) i = 2;
    else { g_rp_foreign = 1; errno = ENOENT; return NULL; }
    if (v_choice() & 1) { errno = ENOENT; return NULL; }          /* process gone, procfs not mounted, EMFILE ... */
    V_ASSERT(!g_rp[i].open, "C03/C16: a status file is opened again while the previous stream on it is still open");
    g_rp[i].open = 1; g_rp[i].pos = 0; g_rp_open_now++; g_rp_ok++;
    return (FILE *)(void *)&g_rp[i];
}
ssize_t getline(char **lineptr, size_t *n, FILE *fp)
{
    struct rp_file *f = (struct rp_file *)(void *)fp;
    V_ASSERT(f == &g_rp[0] || f == &g_rp[1] || f == &g_rp[2], "STDIO MISUSE: getline on something that is not a stream");
    V_ASSERT(f->open, "STDIO MISUSE: getline on a closed stream");
    if (f->pos >= RP_NLINES) return -1;
    if (*lineptr == NULL) { *lineptr = malloc(RP_LINE); *n = RP_LINE; }
    V_ASSERT(*n >= RP_LINE, "STDIO MISUSE: getline with a buffer size that does not describe the buffer");
    int len = 0;
    for (int k = 0; k < RP_LINE; k++) { (*lineptr)[k] = f->line[f->pos][k]; if (f->line[f->pos][k] != '\0' && len == k) len = k + 1; }
    f->pos++;
    return len;
}
int fclose(FILE *fp)
{
    struct rp_file *f = (struct rp_file *)(void *)fp;
    V_ASSERT(f == &g_rp[0] || f == &g_rp[1] || f == &g_rp[2], "STDIO MISUSE: fclose on something that is not a stream");
    V_ASSERT(f->open, "STDIO MISUSE: fclose of a stream that is not open");
    f->open = 0; g_rp_open_now--;
    return 0;
}
static void rp_set(char *t, const char *s) { int k = 0; for (; k < RP_LINE - 1 && s[k] != '\0'; k++) t[k] = s[k]; for (; k < RP_LINE; k++) t[k] = '\0'; }
static void render_status(int i, const char *nm, unsigned nl, const char *ppid_line)
{
    /* "Name:\t<name>\n" / "State:\tS\n" / "PPid:\t<pp>\n", every byte at a concrete index */
    char *t = g_rp[i].line[0];
    t[0] = 'N'; t[1] = 'a'; t[2] = 'm'; t[3] = 'e'; t[4] = ':'; t[5] = '\t';
    for (unsigned j = 0; j < RP_LINE - 6; j++) t[6 + j] = (j < nl) ? nm[j] : ((j == nl) ? '\n' : '\0');
    rp_set(g_rp[i].line[1], "State:\tS\n");
    rp_set(g_rp[i].line[2], ppid_line);
}
void harness(void)
{
    setup();
    v_sys.pid = 50;
    int level = (IN.nenv & 3) % RP_DEPTH;                         /* which ancestor is the child of pid 1/0: 0 = the process itself */
    const char *nm[3] = { IN.e0, IN.e1, IN.pw };
    unsigned nl[3] = { 1u + (IN.fl[10] & 3), 1u + (IN.fl[11] & 3), 1u + (IN.fl[9] & 3) };   /* names of 1..4 arbitrary bytes */
    static const char *const up[3] = { "PPid:\t40\n", "PPid:\t30\n", "PPid:\t1\n" };
    for (int i = 0; i < RP_DEPTH; i++) {
        for (int k = 0; k < 4; k++) V_ASSUME(nm[i][k] != '\n' && nm[i][k] != '\0');
        render_status(i, nm[i], nl[i], (i == level) ? ((IN.nenv & 4) ? "PPid:\t0\n" : "PPid:\t1\n") : up[i]);
    }
    snoopy_datasource_rpname(buf, BUFSZ, "");
    TERMINATED();
    V_ASSERT(g_rp_open_now == 0, "C03/C16: every procfs stream is closed on every path");
    V_ASSERT(!g_rp_foreign, "C12: rpname reads only the status files of the process and its ancestors");
    const char *want = nm[level]; unsigned wl = nl[level];
    int is_want = (strnlen(buf, BUFSZ) == wl);
    for (unsigned k = 0; k < 4; k++) if (k < wl && buf[k] != want[k]) is_want = 0;
    int expected_opens = level + 2;
    if (g_rp_ok == expected_opens && g_rp_opens == expected_opens)
        V_ASSERT(is_want, "C12: rpname = name of the ancestor whose parent is pid 1 (or 0), exactly as the kernel reports it");
    else
        V_ASSERT(is_want || same(buf, "(unknown)"), "C03: unreadable process tree => (unknown)");
    V_WITNESS();
}
#elif defined(DS_cgroup)
/* cgroup:<arg> = the line of /proc/<pid>/cgroup ("<id>:<controller>[,<controller>...]:<path>") selected by <arg>: by hierarchy
 * id when <arg> is a number, otherwise the first line whose controller list contains <arg>; "(none)" when there is none.
 * util/file.c's reader is replaced by a stub handing out the text (or failing); util/string.c is the real code. */
int snoopy_datasource_cgroup(char * const, size_t, char const * const);
#define CG_LINE 10                  /* d ':' L0 L1 L2 L3 ':' P0 P1 '\n' */
#ifndef CG_NLINES
#define CG_NLINES 2
#endif
#define CG_CAP (CG_NLINES * CG_LINE + 4)
static int g_cg_foreign, g_cg_reads;
static char g_cg_text[CG_NLINES * CG_LINE + 1];
int snoopy_util_file_getSmallTextFileContent(char const * const filePath, char ** contentPtrAddr)
{
    char *c = malloc(CG_CAP);
    g_cg_reads++;
    if (strcmp(filePath, "/proc/50/cgroup") != 0 && strcmp(filePath, "/proc/self/cgroup") != 0) g_cg_foreign = 1;
    if (v_choice() & 1) { c[0] = 'E'; c[1] = '\0'; *contentPtrAddr = c; return -1; }
    for (int k = 0; k < CG_NLINES * CG_LINE + 1; k++) c[k] = g_cg_text[k];
    *contentPtrAddr = c;
    return CG_NLINES * CG_LINE;
}
static int cg_list_has(const char *L, const char *a, int al)
{
    for (int s = 0; s < 4; s++) {
        if (s > 0 && L[s - 1] != ',') continue;
        int e = s;
        for (int k = s; k < 4; k++) if (e == k && L[k] != ',') e = k + 1;
        if (e - s != al) continue;
        int eq = 1;
        for (int k = 0; k < 4; k++) if (k < al && s + k < 4 && L[s + k] != a[k]) eq = 0;
        if (eq) return 1;
    }
    return 0;
}
void harness(void)
{
    setup();
    v_sys.pid = 50;
    const char *Ls[3] = { IN.e0, IN.e1, IN.tty };
    char d[3] = { (char)('0' + IN.fl[10] % 10), (char)('0' + IN.fl[11] % 10), (char)('0' + IN.fl[9] % 10) };
    for (int i = 0; i < CG_NLINES; i++) {
        for (int k = 0; k < 4; k++) V_ASSUME(Ls[i][k] != ':' && Ls[i][k] != '\n' && Ls[i][k] != '\0');   /* controller list */
        for (int k = 4; k < 6; k++) V_ASSUME(Ls[i][k] != '\n' && Ls[i][k] != '\0');                     /* path: any other byte */
        char *t = g_cg_text + i * CG_LINE;
        t[0] = d[i]; t[1] = ':'; t[2] = Ls[i][0]; t[3] = Ls[i][1]; t[4] = Ls[i][2]; t[5] = Ls[i][3]; t[6] = ':'; t[7] = Ls[i][4]; t[8] = Ls[i][5]; t[9] = '\n';
    }
    g_cg_text[CG_NLINES * CG_LINE] = '\0';
    IN.arg[4] = '\0';
    int al = (int)strnlen(IN.arg, 6);
    V_ASSUME(al >= 1);
    int digits = 1;
    for (int k = 0; k < 4; k++) { if (k < al) { V_ASSUME(IN.arg[k] != ':' && IN.arg[k] != ',' && IN.arg[k] != '\n'); if (IN.arg[k] < '0' || IN.arg[k] > '9') digits = 0; } }
    int rc = snoopy_datasource_cgroup(buf, BUFSZ, IN.arg);
    TERMINATED();
    V_ASSERT(g_cg_reads == 1 && !g_cg_foreign, "C12: cgroup reads the cgroup file of THIS process, once");
    if (v_ch[0] & 1) {
        V_ASSERT(rc == SNOOPY_DATASOURCE_FAILURE && strncmp(buf, "Unable to read file", 19) == 0, "C03: unreadable cgroup file => failure with a message");
    } else {
        int want = -1;
        for (int i = CG_NLINES - 1; i >= 0; i--) {
            int m = digits ? (al == 1 && IN.arg[0] == d[i]) : cg_list_has(Ls[i], IN.arg, al);
            if (m) want = i;
        }
        if (want < 0) V_ASSERT(same(buf, "(none)"), "C12: cgroup = (none) when no line of the process's cgroup file matches");
        else {
            int ok = (strnlen(buf, BUFSZ) == CG_LINE - 1);
            for (int k = 0; k < CG_LINE - 1; k++) if (buf[k] != g_cg_text[want * CG_LINE + k]) ok = 0;
            V_ASSERT(ok, "C12: cgroup = the FIRST line of the process's cgroup file whose id / controller list matches the argument, whole line");
        }
    }
    V_WITNESS();
}
#elif defined(DS_timestamp)
void harness(void) { setup(); snoopy_datasource_timestamp(buf, BUFSZ, ""); TERMINATED();
    if (!v_sys.gtod_fails) V_ASSERT(is_dec(buf, (unsigned long)IN.now, 0), "C12: timestamp = seconds of the current time"); V_WITNESS(); }
#elif defined(DS_timestamp_ms)
void harness(void) { setup(); snoopy_datasource_timestamp_ms(buf, BUFSZ, ""); TERMINATED();
    if (!v_sys.gtod_fails) V_ASSERT(is_dec(buf, (unsigned long)(IN.usec / 1000), 3), "C12: timestamp_ms = milliseconds of the current time, 3 digits"); V_WITNESS(); }
#elif defined(DS_timestamp_us)
void harness(void) { setup(); snoopy_datasource_timestamp_us(buf, BUFSZ, ""); TERMINATED();
    if (!v_sys.gtod_fails) V_ASSERT(is_dec(buf, (unsigned long)IN.usec, 6), "C12: timestamp_us = microseconds of the current time, 6 digits"); V_WITNESS(); }
#endif
