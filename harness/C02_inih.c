/* C02 (+ C08 grammar): inih's stream parser on an arbitrary file tail never leaves its line buffer, terminates,
 * and hands only NUL-terminated section/name/value strings shorter than the line cap to the handler.
 * Real code: lib/inih/src/ini.c with the build's own flags, INI_MAX_LINE scaled (see props/C02.py). */
#ifndef _GNU_SOURCE
#define _GNU_SOURCE
#endif
#include <string.h>
#include <stdio.h>
#include "lib/inih/src/ini.h"
#include "verif.h"
#ifndef TAIL
#define TAIL 4
#endif
#ifndef LINECAP
#define LINECAP 32
#endif
struct in_t { char tail[TAIL + 1]; };
V_DEFINE_IN

static char g_text[16 + TAIL];
static size_t g_pos;
static int g_calls;

static char *reader(char *str, int num, void *stream)
{
    (void)stream;
    int n = 0;
    if (g_text[g_pos] == '\0' || num <= 0) return NULL;
    while (n + 1 < num && g_text[g_pos] != '\0') {
        char c = g_text[g_pos++];
        str[n++] = c;
        if (c == '\n') break;
    }
    str[n] = '\0';
    return str;
}

static int handler(void *user, const char *section, const char *name, const char *value)
{
    (void)user;
    g_calls++;
    V_ASSERT(strnlen(section, LINECAP) < LINECAP && strnlen(name, LINECAP) < LINECAP && strnlen(value, LINECAP) < LINECAP,
             "C02: strings handed to the configuration callback are NUL-terminated and shorter than the INI line cap");
    return 1;
}

void harness(void)
{
    V_HAVOC_IN();
    IN.tail[TAIL] = '\0';
    static const char head[] = "[snoopy]\n";
    size_t p = 0;
    for (size_t i = 0; head[i] != '\0'; i++) g_text[p++] = head[i];
    for (size_t i = 0; i < TAIL; i++) g_text[p++] = IN.tail[i];
    g_text[p] = '\0';
    g_pos = 0;
    int r = ini_parse_stream(reader, NULL, handler, NULL);
    V_ASSERT(r >= -2, "C02: parser returns a line number, 0 or a documented error code");
    V_WITNESS();
}
