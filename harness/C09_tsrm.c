/* C09 / C10: per-thread state of concurrent exec calls stays isolated and is released; a forked child never
 * blocks on state inherited from the parent.
 *
 * Real code: tsrm.c, util/list.c, init-deinit.c, configuration.c, inputdatastorage.c (thread-safe variant).
 * Schedules are encoded sequentially (CBMC's thread mode is unsound on this heap): the thread under test T
 * (v_self = 1) runs the real call sequence; at every acquisition of the repository lock from depth 0 the other
 * threads (ids 2 and 3) perform up to NEFF of their permitted effects THROUGH THE REAL LIST CODE: enter (push
 * own record) / leave (remove own record, free it).  util/list.c's entry points are wrapped (renamed in that
 * unit only) so that every repository access is asserted to happen with the lock held by the caller.
 *
 * C10 (-DFORK): at every lock/unlock boundary a symbolic fork point may fire; the harness then continues AS
 * THE CHILD: same memory image, only the forking thread (id 2, which was outside the library) exists, and it
 * performs a complete wrapped call.
 */
#ifndef _GNU_SOURCE
#define _GNU_SOURCE
#endif
#include <stdlib.h>
#include <string.h>
#include "snoopy.h"
#include "configuration.h"
#include "inputdatastorage.h"
#include "init-deinit.h"
#include "tsrm.h"
#include "util/list-snoopy.h"
#include "vthread.h"
#include "verif.h"

#ifndef NEV
#define NEV 2              /* effects of other threads during the run, each at a symbolic lock-acquisition point */
#endif
#ifndef NCALLS
#define NCALLS 1
#endif

struct in_t {
    unsigned char ev_point[NEV];           /* index of the lock acquisition (0..31) of the thread under test at which the effect happens */
    unsigned char ev_eff[NEV];             /* 0 none, 1 enter(2), 2 leave(2), 3 enter(3), 4 leave(3) */
    unsigned char fork_point;              /* C10: boundary at which thread 2 forks (255 = never) */
    unsigned char cfg_present;
};
V_DEFINE_IN

extern list_t snoopy_tsrm_threadRepo_data;
snoopy_tsrm_threadData_t *snoopy_tsrm_createNewThreadData(snoopy_tsrm_threadId_t threadId);

/* ---- wrapped list entry points: every repository access happens under the lock ------------- */
int        real_list_push(list_t *l, void *v);
void      *real_list_remove(list_t *l, listNode_t *n);
listNode_t *real_list_fetchNextNode(list_t *l, listNode_t *n);
static int g_as_other;       /* the harness itself is acting for another thread (which holds the lock by construction) */
#define LOCK_HELD() (g_as_other || (v_mutex_owner == v_tid && v_mutex_depth > 0))
int snoopy_util_list_push(list_t *l, void *v) { V_ASSERT(LOCK_HELD(), "C09: repository modified (push) without holding the lock"); return real_list_push(l, v); }
void *snoopy_util_list_remove(list_t *l, listNode_t *n) { V_ASSERT(LOCK_HELD(), "C09: repository modified (remove) without holding the lock"); return real_list_remove(l, n); }
listNode_t *snoopy_util_list_fetchNextNode(list_t *l, listNode_t *n) { V_ASSERT(LOCK_HELD(), "C09: repository read without holding the lock"); return real_list_fetchNextNode(l, n); }

/* ---- stubs ------------------------------------------------------------------- */
int snoopy_configfile_load(char *p) { (void)p; return (IN.cfg_present & 1) ? 0 : -1; }
void snoopy_error_handler(char const * const m) { (void)m; }

/* ---- other threads ------------------------------------------------------------ */
static int g_present[4];                 /* ghost: does thread t (2,3) have a record in the repository */
static snoopy_tsrm_threadData_t *g_data[4];
static int g_point;

static listNode_t *find_node(pthread_t t)
{
    listNode_t *n = snoopy_tsrm_threadRepo_data.first;
    for (int k = 0; k < 4 && n != NULL; k++, n = n->next)
        if (n->value != NULL && ((snoopy_tsrm_threadData_t *)n->value)->threadId == t) return n;
    return NULL;
}

static void other_enter(int t)
{
    if (g_present[t]) return;
    g_data[t] = snoopy_tsrm_createNewThreadData((pthread_t)t);
    g_as_other = 1; snoopy_util_list_push(&snoopy_tsrm_threadRepo_data, g_data[t]); g_as_other = 0;
    g_present[t] = 1;
}
static void other_leave(int t)
{
    if (!g_present[t]) return;
    listNode_t *n = find_node((pthread_t)t);
    V_ASSERT(n != NULL, "C09: another thread's record is still in the repository when it leaves");
    if (n == NULL) return;
    g_as_other = 1; snoopy_tsrm_threadData_t *d = snoopy_util_list_remove(&snoopy_tsrm_threadRepo_data, n); g_as_other = 0;
    V_ASSERT(d == g_data[t], "C09: removing a record returns that thread's own data");
    free(d->inputdatastorage); free(d->configuration); free(d);
    g_present[t] = 0;
}

void v_interference(void)
{
    if (v_child_mode) return;              /* in the forked child no other thread exists */
    for (int k = 0; k < NEV; k++) {
#ifdef EVP0      /* partition: the lock-acquisition indices of the effects are fixed per query */
        if (((k == 0) ? EVP0 : EVP1) != g_point) continue;
#else
        if (IN.ev_point[k] != g_point) continue;
#endif
        switch (IN.ev_eff[k] % 5) {
        case 1: other_enter(2); break;
        case 2: other_leave(2); break;
        case 3: other_enter(3); break;
        case 4: other_leave(3); break;
        default: break;
        }
    }
    g_point++;
}

/* ---- representation invariant of the repository -------------------------------- */
static int repo_ok(int expect_self)
{
    const list_t *l = &snoopy_tsrm_threadRepo_data;
    int n = 0, seen_self = 0, seen2 = 0, seen3 = 0;
    const listNode_t *p = l->first, *last = NULL;
    for (int k = 0; k < 5 && p != NULL; k++, p = p->next) {
        n++; last = p;
        if (p->value == NULL) return 0;
        pthread_t t = ((const snoopy_tsrm_threadData_t *)p->value)->threadId;
        if (t == v_self) seen_self++;
        else if (v_child_mode && (t == 1 || t == 3)) { }      /* records of parent threads that do not exist in the child: stale but harmless */
        else if (t == 2) seen2++;
        else if (t == 3) seen3++;
        else return 0;
    }
    if (p != NULL) return 0;                                   /* more nodes than threads */
    if (l->count != n || l->last != last) return 0;
    if ((l->first == NULL) != (l->last == NULL)) return 0;
    if (!v_child_mode) { if (seen2 != g_present[2] || seen3 != g_present[3]) return 0; }
    return seen_self == expect_self;
}

/* ---- one complete wrapped call of the thread under test ------------------------- */
static void wrapped_call(const char *fn)
{
    snoopy_init();
    snoopy_inputdatastorage_store_filename(fn);
    snoopy_configuration_t *c1 = snoopy_configuration_get();
    c1->syslog_level = 5;                                      /* something of our own in our configuration */
    snoopy_inputdatastorage_t *ids = snoopy_inputdatastorage_get();
    V_ASSERT(ids->filename == fn, "C09: the call reads back its OWN path after other threads ran");
    int tc = snoopy_tsrm_get_threadCount();
    V_ASSERT(tc >= 1 && tc <= 4, "C09: thread count covers this thread and at most the others present");
    snoopy_configuration_t *c2 = snoopy_configuration_get();
    V_ASSERT(c2 == c1 && c2->syslog_level == 5, "C09: the call keeps its OWN configuration record after other threads ran");
    V_ASSERT(repo_ok(1), "C09: repository consistent while the call is in progress (one record per thread inside)");
    snoopy_cleanup();
    V_ASSERT(v_mutex_owner != v_tid, "C09: the lock is released at the end of the call");
}

#ifdef FORK
/* C10: called at every lock/unlock boundary of the parent thread T */
static int g_boundary;
static int g_forking;
static void child_after_fork(void)
{
    g_forking = 1;
    /* thread 2 (outside the library) calls fork(): registered handlers run - prepare in the parent ... */
    v_self = 2; v_tid = 2;
    if (v_atfork_prepare != NULL) { v_in_prepare = 1; v_atfork_prepare(); v_in_prepare = 0; }
    /* ... the child is a copy of the memory image with ONE thread: same pthread_t, new kernel TID ... */
    v_child_mode = 1;
    v_tid = 102;
    if (v_atfork_child != NULL) v_atfork_child();
    static const char cf[] = "c";
    wrapped_call(cf);                        /* must complete: logs (or drops) and reaches the real exec */
    V_ASSERT(repo_ok(0), "C10: the child's own call leaves no record of the child thread behind");
}
void v_boundary(void)
{
    if (v_child_mode || g_forking) return;
#ifdef FORKP
    if (g_boundary == FORKP) {
#else
    if (g_boundary == IN.fork_point) {
#endif
#ifdef KF_fork_while_lock_held
        /* known finding (C10): no fork handler resets the lock; exclude forks taken while T holds it */
        V_ASSUME(v_mutex_owner == 0);
#endif
        child_after_fork();
#ifdef VERIF_CBMC
        __CPROVER_assert(0, "WITNESS child completed its call");
        __CPROVER_assume(0);
#else
        _exit(0);
#endif
    }
    g_boundary++;
}
#else
void v_boundary(void) { }
#endif

void harness(void)
{
    V_HAVOC_IN();
    static const char f1[] = "a", f2[] = "b";
    wrapped_call(f1);
    V_ASSERT(repo_ok(0), "C09: after the call the library holds no state of this thread; other threads' records are intact");
#if NCALLS > 1
    wrapped_call(f2);                        /* a second call (1..3 calls per thread): starts from the state the first left */
    V_ASSERT(repo_ok(0), "C09: after the second call likewise");
#else
    (void)f2;
#endif
    /* all other threads leave: the repository is empty again */
    other_leave(2); other_leave(3);
    V_ASSERT(snoopy_tsrm_threadRepo_data.count == 0 && snoopy_tsrm_threadRepo_data.first == NULL && snoopy_tsrm_threadRepo_data.last == NULL,
             "C09: once all calls have returned the library holds no per-thread state");
    V_WITNESS();
}
