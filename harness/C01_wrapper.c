/* C01 + C06: the execv/execve interposers pass every call through unchanged, exactly once, after the
 * logging work, and return the real function's result/errno; cmdline/filename describe the current call
 * only (no residue of an earlier call).
 *
 * Real code: entrypoint/execve-wrapper.c, init-deinit.c, inputdatastorage.c, configuration.c,
 *   datasource/cmdline.c, datasource/filename.c; TS variant adds tsrm.c + util/list.c over models/vthread.c.
 * Stubs: the logging action (records when it runs, reads the stored inputs the way data sources do and
 *   runs the two real data sources against a reference join), config file loader (absent / present by choice),
 *   dlsym (must be asked for RTLD_NEXT + the right name; returns the recorder).
 *
 * Two consecutive calls (kinds symbolic: execv/execve in any order) from an arbitrary between-calls state:
 * histories by induction (DESIGN C06).
 */
#ifndef _GNU_SOURCE
#define _GNU_SOURCE
#endif
#include <dlfcn.h>
#include <errno.h>
#include <stdlib.h>
#include <string.h>
#include <unistd.h>
#include "snoopy.h"
#include "configuration.h"
#include "inputdatastorage.h"
#include "datasource/cmdline.h"
#include "datasource/filename.h"
#ifdef SNOOPY_CONF_THREAD_SAFETY_ENABLED
#include "util/list-snoopy.h"
#include "vthread.h"
extern list_t snoopy_tsrm_threadRepo_data;
#else
extern snoopy_inputdatastorage_t snoopy_inputdatastorage_data;
#endif
#include "verif.h"

#ifndef SLEN
#define SLEN 3            /* max length of each string */
#endif
#ifndef NVEC
#define NVEC 3            /* max entries of argv / envp */
#endif
#ifndef BUFSZ
#define BUFSZ 6           /* result buffer size handed to cmdline / filename (swept per query) */
#endif
#define JOINCAP (NVEC * (SLEN + 1) + 2)

struct call_in {
    char fn[SLEN + 1];
    char av[NVEC][SLEN + 1];
    char ev[NVEC][SLEN + 1];
    unsigned char kind, argv_null, argc, envp_null, envc, fn_null;
    int ret, err;
};
struct in_t { struct call_in c[2]; unsigned char pre_init; unsigned char cfg_present; };
V_DEFINE_IN

extern char **environ;
int execv(const char *filename, char *const argv[]);
int execve(const char *filename, char *const argv[], char *const envp[]);

/* ---- per-call ghost state ---------------------------------------------- */
static const struct call_in *cur;
static const char *cur_fn; static char *const *cur_argv; static char *const *cur_envp;
static int g_action_calls, g_rec_calls, g_rec_kind;
static const char *g_rec_fn; static char *const *g_rec_argv; static char *const *g_rec_envp;
static char **g_environ_at_rec;

static int library_state_clean(void)
{
#ifdef SNOOPY_CONF_THREAD_SAFETY_ENABLED
    return snoopy_tsrm_threadRepo_data.count == 0 && snoopy_tsrm_threadRepo_data.first == NULL && v_mutex_depth == 0;
#else
    return snoopy_inputdatastorage_data.initialized == SNOOPY_TRUE && snoopy_inputdatastorage_data.filename[0] == '\0' &&
           snoopy_inputdatastorage_data.argv[0] == NULL && snoopy_inputdatastorage_data.envp[0] == NULL;
#endif
}

/* ---- recorders standing for the real libc functions -------------------- */
static int rec_common(int kind, const char *f, char *const *a, char *const *e)
{
    g_rec_calls++;
    g_rec_kind = kind; g_rec_fn = f; g_rec_argv = a; g_rec_envp = e; g_environ_at_rec = environ;
    V_ASSERT(g_action_calls == 1, "C01: the real exec starts only after the logging work of this call ran (exactly once)");
    V_ASSERT(library_state_clean(), "C01/C16: at the moment of the real exec the library holds no per-call state any more");
    errno = cur->err;
    return cur->ret;
}
static int rec_execv(const char *f, char *const *a) { return rec_common(0, f, a, NULL); }
static int rec_execve(const char *f, char *const *a, char *const *e) { return rec_common(1, f, a, e); }

void *dlsym(void *handle, const char *name)
{
    V_ASSERT(handle == RTLD_NEXT, "C01: next definition looked up with RTLD_NEXT");
    if (strcmp(name, "execv") == 0) return (void *)rec_execv;
    if (strcmp(name, "execve") == 0) return (void *)rec_execve;
    V_ASSERT(0, "C01: dlsym asked for a symbol other than execv/execve");
    return NULL;
}

/* ---- stubs --------------------------------------------------------------- */
int snoopy_configfile_load(char *path) { (void)path; return (IN.cfg_present & 1) ? 0 : -1; }
void snoopy_error_handler(char const * const m) { (void)m; }
#ifdef SNOOPY_CONF_THREAD_SAFETY_ENABLED
void v_interference(void) { }
#endif

/* reference for cmdline: argument strings joined by single spaces; path when the vector is missing or empty */
static size_t ref_cmdline(char *out)
{
    size_t p = 0;
    if (cur_argv == NULL || cur_argv[0] == NULL) {
        const char *s = (cur_fn != NULL) ? cur_fn : "(unknown)";
        for (size_t i = 0; s[i] != '\0'; i++) out[p++] = s[i];
    } else {
        for (int k = 0; k < NVEC && cur_argv[k] != NULL; k++) {
            if (k > 0) out[p++] = ' ';
            for (size_t i = 0; cur_argv[k][i] != '\0'; i++) out[p++] = cur_argv[k][i];
        }
    }
    out[p] = '\0';
    return p;
}

static int check_prefix(const char *got, const char *full, size_t flen)
{
    size_t want = (flen < BUFSZ - 1) ? flen : BUFSZ - 1;
    size_t gl = 0;
    while (gl < BUFSZ && got[gl] != '\0') gl++;
    if (gl >= BUFSZ) return -1;             /* not terminated inside the buffer */
    int same = (gl == want);
    for (size_t i = 0; i < want && i < gl; i++) if (got[i] != full[i]) same = 0;
    return same;
}

void snoopy_action_log_syscall_exec(void)
{
    g_action_calls++;
    V_ASSERT(g_rec_calls == 0, "C01: logging happens before the real exec, never after it");
    const snoopy_inputdatastorage_t *ids = snoopy_inputdatastorage_get();
    V_ASSERT(ids->filename == cur_fn, "C01/C06: the stored path is the caller's pointer of THIS call");
    V_ASSERT(ids->argv == cur_argv, "C01/C06: the stored argv is the caller's vector of THIS call");
    if (cur->kind & 1) V_ASSERT(ids->envp == cur_envp, "C01: the stored envp is the caller's vector of THIS call (execve)");
    else               V_ASSERT(ids->envp != NULL && ids->envp[0] == NULL, "C01: execv stores an empty environment vector");
    if (cur_fn == NULL) return;             /* NULL path: the data sources are not defined for it (outside C06) */

    char buf[BUFSZ], ref[JOINCAP + 12];
    size_t rl = ref_cmdline(ref);
    memset(buf, 0x55, sizeof buf);
    snoopy_datasource_cmdline(buf, BUFSZ, "");
    int ok = check_prefix(buf, ref, rl);
    V_ASSERT(ok >= 0, "C06/C02: cmdline result NUL-terminated inside its buffer");
    V_ASSERT(ok == 1, "C06: cmdline = argument strings of the current call joined by single spaces (path if the vector is missing/empty), cut to the buffer");
    memset(buf, 0x55, sizeof buf);
    snoopy_datasource_filename(buf, BUFSZ, "");
    ok = check_prefix(buf, cur_fn, strlen(cur_fn));
    V_ASSERT(ok >= 0, "C06/C02: filename result NUL-terminated inside its buffer");
    V_ASSERT(ok == 1, "C06: filename = the path of the current call, cut to the buffer");
}

/* ---- one wrapped call ----------------------------------------------------- */
static char *g_env0[2];
static void one_call(const struct call_in *c)
{
    /* static: both calls of a history use the SAME caller buffers (a launcher re-using its argv array), so state keyed on
     * pointer identity that survives a call is exposed; every byte is rewritten per call from that call's symbolic input */
    static char fn[SLEN + 1], avs[NVEC][SLEN + 1], evs[NVEC][SLEN + 1];
    static char *av[NVEC + 1], *ev[NVEC + 1];
    for (int i = 0; i <= SLEN; i++) fn[i] = (i < SLEN) ? c->fn[i] : '\0';
    for (int k = 0; k < NVEC; k++) {
        for (int i = 0; i <= SLEN; i++) { avs[k][i] = (i < SLEN) ? c->av[k][i] : '\0'; evs[k][i] = (i < SLEN) ? c->ev[k][i] : '\0'; }
        av[k] = (k < c->argc) ? avs[k] : NULL;
        ev[k] = (k < c->envc) ? evs[k] : NULL;
    }
    av[NVEC] = NULL; ev[NVEC] = NULL;
    /* snapshot */
    char fn0[SLEN + 1], avs0[NVEC][SLEN + 1], evs0[NVEC][SLEN + 1];
    char *av0[NVEC + 1], *ev0[NVEC + 1];
    for (int i = 0; i <= SLEN; i++) fn0[i] = fn[i];
    for (int k = 0; k < NVEC; k++) for (int i = 0; i <= SLEN; i++) { avs0[k][i] = avs[k][i]; evs0[k][i] = evs[k][i]; }
    for (int k = 0; k <= NVEC; k++) { av0[k] = av[k]; ev0[k] = ev[k]; }
    char **environ0 = environ; char *env00 = environ[0];

    cur = c;
    cur_fn = (c->fn_null & 1) ? NULL : fn;
    cur_argv = (c->argv_null & 1) ? NULL : av;
    cur_envp = (c->envp_null & 1) ? NULL : ev;
    g_action_calls = 0; g_rec_calls = 0; g_rec_kind = -1;
    errno = 0;
    int r = (c->kind & 1) ? execve(cur_fn, cur_argv, cur_envp) : execv(cur_fn, cur_argv);
    int e = errno;

    V_ASSERT(g_rec_calls == 1, "C01: the real function is reached exactly once per call");
    V_ASSERT(g_rec_kind == (c->kind & 1), "C01: execv reaches the real execv, execve the real execve");
    V_ASSERT(g_rec_fn == cur_fn && g_rec_argv == cur_argv, "C01: path and argv handed over are the caller's pointers");
    if (c->kind & 1) V_ASSERT(g_rec_envp == cur_envp, "C01: envp handed over is the caller's pointer");
    V_ASSERT(g_environ_at_rec == environ0 && environ == environ0 && environ[0] == env00, "C01/C16: the process environment is untouched");
    V_ASSERT(r == c->ret, "C01: the real function's return value is delivered unchanged");
    V_ASSERT(e == c->err, "C01: the errno set by the real function is delivered unchanged");
    int same = 1;
    for (int i = 0; i <= SLEN; i++) if (fn[i] != fn0[i]) same = 0;
    for (int k = 0; k < NVEC; k++) for (int i = 0; i <= SLEN; i++) if (avs[k][i] != avs0[k][i] || evs[k][i] != evs0[k][i]) same = 0;
    for (int k = 0; k <= NVEC; k++) if (av[k] != av0[k] || ev[k] != ev0[k]) same = 0;
    V_ASSERT(same, "C01: every byte of path / argv / envp is untouched");
    V_ASSERT(library_state_clean(), "C06/C16: after the call the library holds nothing of it (input data back to the empty defaults)");
}

void harness(void)
{
    V_HAVOC_IN();
    for (int k = 0; k < 2; k++) V_ASSUME(IN.c[k].argc <= NVEC && IN.c[k].envc <= NVEC);
    g_env0[0] = "A=b"; g_env0[1] = NULL;
    environ = g_env0;
#ifndef SNOOPY_CONF_THREAD_SAFETY_ENABLED
    /* arbitrary between-calls state: never used before, or used and reset to the empty defaults */
    if (IN.pre_init & 1) snoopy_inputdatastorage_setDefaults(&snoopy_inputdatastorage_data);
#endif
    one_call(&IN.c[0]);
    one_call(&IN.c[1]);
    V_WITNESS();
}
