/* C13 cross-check: the real lookup code (genericregistry.c + the three registries) on ONE concrete build:
 * for every index below the registry's count, calling by that name reaches the implementation named after it.
 * Every implementation is an identity stub generated from the full name list (c13_gen.h, written by props/C13.py
 * from the registries' sources with all switches on). */
#ifndef _GNU_SOURCE
#define _GNU_SOURCE
#endif
#include <string.h>
#include "snoopy.h"
#include "datasourceregistry.h"
#include "filterregistry.h"
#include "outputregistry.h"
#include "configuration.h"
#include "c13_gen.h"
#include "verif.h"

struct in_t { unsigned char reg; int idx; unsigned char any; };
V_DEFINE_IN

static int g_called;
enum { ID_NONE = 0,
#define X(n) ID_DS_##n,
    DS_LIST
#undef X
#define X(n) ID_FI_##n,
    FI_LIST
#undef X
#define X(n) ID_OU_##n,
    OU_LIST
#undef X
    ID_MAX };

#define X(n) int snoopy_datasource_##n(char * const b, size_t s, char const * const a) { (void)b; (void)s; (void)a; g_called = ID_DS_##n; return 0; }
DS_LIST
#undef X
#define X(n) int snoopy_filter_##n(char const * const a) { (void)a; g_called = ID_FI_##n; return 1; }
FI_LIST
#undef X
#define X(n) int snoopy_output_##n##output(char const * const m, char const * const a) { (void)m; (void)a; g_called = ID_OU_##n; return 1; }
OU_LIST
#undef X
snoopy_configuration_t *snoopy_configuration_get(void) { static snoopy_configuration_t c; return &c; }

static int id_of(int reg, const char *name)
{
    if (reg == 0) {
#define X(n) if (strcmp(name, #n) == 0) return ID_DS_##n;
        DS_LIST
#undef X
    } else if (reg == 1) {
#define X(n) if (strcmp(name, #n) == 0) return ID_FI_##n;
        FI_LIST
#undef X
    } else {
#define X(n) if (strcmp(name, #n) == 0) return ID_OU_##n;
        OU_LIST
#undef X
    }
    return ID_NONE;
}

static const char *const ALL_DS[] = {
#define X(n) #n,
    DS_LIST
#undef X
    "nosuch" };
static const char *const ALL_FI[] = {
#define X(n) #n,
    FI_LIST
#undef X
    "nosuch" };
static const char *const ALL_OU[] = {
#define X(n) #n,
    OU_LIST
#undef X
    "nosuch" };

/* a name of ANY build (or an unknown one): it exists in THIS build iff it is literally in the build's names array;
 * a switched-off feature is simply an unknown name */
void harness_anyname(void)
{
    char buf[8];
    V_HAVOC_IN();
    int reg = IN.reg % 3;
    unsigned nall = (reg == 0) ? sizeof ALL_DS / sizeof ALL_DS[0] : (reg == 1) ? sizeof ALL_FI / sizeof ALL_FI[0] : sizeof ALL_OU / sizeof ALL_OU[0];
    V_ASSUME(IN.any < nall);
    const char *name = (reg == 0) ? ALL_DS[IN.any] : (reg == 1) ? ALL_FI[IN.any] : ALL_OU[IN.any];
    int count = (reg == 0) ? snoopy_datasourceregistry_getCount() : (reg == 1) ? snoopy_filterregistry_getCount() : snoopy_outputregistry_getCount();
    int enabled = 0;
    for (int i = 0; i < 45; i++) {
        if (i >= count) break;
        const char *ni = (reg == 0) ? snoopy_datasourceregistry_getName(i) : (reg == 1) ? snoopy_filterregistry_getName(i) : snoopy_outputregistry_getName(i);
        if (strcmp(ni, name) == 0) enabled = 1;
    }
    int exists = (reg == 0) ? snoopy_datasourceregistry_doesNameExist(name) : (reg == 1) ? snoopy_filterregistry_doesNameExist(name) : snoopy_outputregistry_doesNameExist(name);
    V_ASSERT((exists != 0) == enabled, "C13: a name exists exactly when its feature is switched on in this build (a switched-off feature is an unknown name)");
    g_called = ID_NONE;
    int r;
    if (reg == 0) r = snoopy_datasourceregistry_callByName(name, buf, sizeof buf, "");
    else if (reg == 1) r = snoopy_filterregistry_callByName(name, "");
    else r = snoopy_outputregistry_callByName(name, "m", "");
    if (!enabled) V_ASSERT(g_called == ID_NONE && r == -1, "C13: calling a switched-off or unknown name runs nothing");
    else V_ASSERT(g_called == id_of(reg, name), "C13: an available name invokes ITS OWN implementation (looked up among all names)");
    V_WITNESS();
}

void harness(void)
{
    char buf[8];
    V_HAVOC_IN();
    int reg = IN.reg % 3;
    int count = (reg == 0) ? snoopy_datasourceregistry_getCount() : (reg == 1) ? snoopy_filterregistry_getCount() : snoopy_outputregistry_getCount();
    V_ASSUME(IN.idx >= 0 && IN.idx < count);
    const char *name = (reg == 0) ? snoopy_datasourceregistry_getName(IN.idx) : (reg == 1) ? snoopy_filterregistry_getName(IN.idx) : snoopy_outputregistry_getName(IN.idx);
    V_ASSERT(name != NULL && name[0] != '\0', "C13: every index below the count has a name");
    g_called = ID_NONE;
    if (reg == 0) snoopy_datasourceregistry_callByName(name, buf, sizeof buf, "");
    else if (reg == 1) snoopy_filterregistry_callByName(name, "");
    else snoopy_outputregistry_callByName(name, "m", "");
    V_ASSERT(g_called != ID_NONE, "C13: an available name invokes an implementation");
    V_ASSERT(g_called == id_of(reg, name), "C13: an available name invokes ITS OWN implementation");
    V_WITNESS();
}
