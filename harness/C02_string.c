/* C02 / C05: util/string.c append helper - never writes outside the destination,
 * result NUL-terminated inside it, return value per its contract. */
#define _GNU_SOURCE
#include <stdlib.h>
#include <string.h>
#include "snoopy.h"
#include "util/string-snoopy.h"

#ifndef BUFMAX
#define BUFMAX 8
#endif
struct in_t { unsigned bufsize; char dest[BUFMAX + 2]; char app[BUFMAX + 2]; };
#include "verif.h"
V_DEFINE_IN

void harness(void)
{
    V_HAVOC_IN();
    V_ASSUME(IN.bufsize >= 1 && IN.bufsize <= BUFMAX);      /* the one symbolic-size object */
    V_ASSUME(IN.dest[BUFMAX + 1] == 0 && IN.app[BUFMAX + 1] == 0);
    char *buf = malloc(IN.bufsize);
    V_ASSUME(buf != NULL);
    size_t dl = strlen(IN.dest), al = strlen(IN.app);
    V_ASSUME(dl < IN.bufsize);                              /* precondition: dest is a string inside its buffer */
    memcpy(buf, IN.dest, dl + 1);
    int r = snoopy_util_string_append(buf, IN.bufsize, IN.app);
    size_t nl = strnlen(buf, IN.bufsize);
    V_ASSERT(nl < IN.bufsize, "result NUL-terminated inside the destination buffer");
    if (dl + al < IN.bufsize) {
        V_ASSERT(r == (int)al, "append that fits returns appended size");
        V_ASSERT(nl == dl + al && memcmp(buf, IN.dest, dl) == 0 && memcmp(buf + dl, IN.app, al) == 0, "append that fits is exact");
    } else {
        V_ASSERT(r == SNOOPY_ERROR, "append that does not fit is refused");
        V_ASSERT(nl == dl && memcmp(buf, IN.dest, dl) == 0, "refused append leaves destination unchanged");
    }
    free(buf);
    V_WITNESS();
}
