/* C14: only_uid / exclude_uid / only_root decide by exact membership of the REAL uid.
 *
 * Real code: filter/only_uid.c, filter/exclude_uid.c, filter/only_root.c, util/parser.c, util/string.c.
 *
 * Mode COMPOSITIONAL (default): atol() is replaced by a recording model: it asserts that its
 *   argument is byte for byte the k-th comma separated item of the list and returns an arbitrary
 *   value vals[k] in [0, 2^32-2] which the oracle uses too.  Splitting, loop, early exit, cast
 *   chain and the comparison with the real uid are decided for arbitrary texts and values.
 * Mode DIGITS (-DDIGITS=n -DITEMS=m): list = m items of 1..n decimal digits, real conversion by the
 *   validated atol model of models/vlibc.c, reference value computed by the harness in 64 bit.
 */
#define _GNU_SOURCE
#include <stdlib.h>
#include <string.h>
#include <sys/types.h>
#include <unistd.h>
#include "snoopy.h"
#include "filter/only_uid.h"
#include "filter/exclude_uid.h"
#include "filter/only_root.h"

#ifndef ARGCAP
#define ARGCAP 8
#endif
#ifndef ITEMS
#define ITEMS 3
#endif
#ifndef DIGITS
#define DIGITS 3
#endif
#define MAXITEMS (ARGCAP + 1)

struct in_t {
    char arg[ARGCAP + 1];
    unsigned uid, euid, euid2;
    unsigned long long vals[MAXITEMS];
    unsigned char ndig[ITEMS];
    unsigned char nitems;
};
#include "verif.h"
V_DEFINE_IN

static unsigned g_euid;
uid_t getuid(void)  { return IN.uid; }
uid_t geteuid(void) { return g_euid; }

/* reference split of the list: start offsets of the items */
static int  r_count;
static int  r_start[MAXITEMS + 1];
static void ref_split(const char *s)
{
    size_t n = strlen(s);
    r_count = 0;
    if (n == 0) return;
    r_start[r_count++] = 0;
    for (size_t i = 0; i < n; i++)
        if (s[i] == ',') r_start[r_count++] = (int)i + 1;
}
static size_t item_len(const char *s, int k)
{
    size_t i = (size_t)r_start[k];
    while (s[i] != '\0' && s[i] != ',') i++;
    return i - (size_t)r_start[k];
}

#ifndef MODE_DIGITS
static int g_atol_calls;
long atol(const char *p)
{
    int k = g_atol_calls++;
    V_ASSERT(k < r_count, "C14: no more conversions than list items");
    if (k < r_count) {
        size_t l = item_len(IN.arg, k);
        /* the filter splits in place (commas -> NUL) in its private copy: p must spell exactly item k */
        int same = 1;
        size_t i = 0;
        for (; i < l; i++) if (p[i] == '\0' || p[i] != IN.arg[r_start[k] + i]) { same = 0; break; }   /* plain loop (no memcmp: array theory) */
        V_ASSERT(same && p[l] == '\0', "C14: item handed to the conversion is list item k byte for byte");
        return (long)IN.vals[k];
    }
    return 0;
}

/* the same recording model stands for every decimal conversion routine the filters might use */
long strtol(const char *p, char **e, int b) { (void)b; if (e) *e = (char *)p + strlen(p); return atol(p); }
long long strtoll(const char *p, char **e, int b) { return strtol(p, e, b); }
unsigned long strtoul(const char *p, char **e, int b) { return (unsigned long)strtol(p, e, b); }
unsigned long long strtoull(const char *p, char **e, int b) { return (unsigned long long)strtol(p, e, b); }
int atoi(const char *p) { return (int)atol(p); }
long long atoll(const char *p) { return atol(p); }

void harness(void)
{
    V_HAVOC_IN();
    IN.arg[ARGCAP] = '\0';
#ifdef LONGITEM     /* first item is exactly LONGITEM bytes long (real uids have up to 10 digits), then optional ",x.." */
    for (int i = 0; i < LONGITEM; i++) V_ASSUME(IN.arg[i] != ',' && IN.arg[i] != '\0');
    V_ASSUME(IN.arg[LONGITEM] == ',' || IN.arg[LONGITEM] == '\0');
#endif
    ref_split(IN.arg);
    for (int k = 0; k < MAXITEMS; k++) V_ASSUME(IN.vals[k] <= 4294967294ULL);   /* well-formed uids */
    int member = 0;
    for (int k = 0; k < r_count; k++) if (IN.vals[k] == (unsigned long long)IN.uid) member = 1;

    g_euid = IN.euid;
    g_atol_calls = 0;
    int only = snoopy_filter_only_uid(IN.arg);
    g_atol_calls = 0;
    int excl = snoopy_filter_exclude_uid(IN.arg);
    int root = snoopy_filter_only_root(IN.arg);

    V_ASSERT(only == (member ? SNOOPY_FILTER_PASS : SNOOPY_FILTER_DROP), "C14: only_uid passes exactly the listed real uids");
    V_ASSERT(excl == (member ? SNOOPY_FILTER_DROP : SNOOPY_FILTER_PASS), "C14: exclude_uid passes exactly the unlisted real uids");
    V_ASSERT(only != excl, "C14: only_uid:L and exclude_uid:L never agree");
    V_ASSERT(root == ((IN.uid == 0) ? SNOOPY_FILTER_PASS : SNOOPY_FILTER_DROP), "C14: only_root passes exactly uid 0");

#ifndef NO_EUID2
    /* 2-safety: the verdicts do not depend on the effective uid */
    g_euid = IN.euid2;
    g_atol_calls = 0;
    int only2 = snoopy_filter_only_uid(IN.arg);
    g_atol_calls = 0;
    int excl2 = snoopy_filter_exclude_uid(IN.arg);
    int root2 = snoopy_filter_only_root(IN.arg);
    V_ASSERT(only2 == only && excl2 == excl && root2 == root, "C14: verdict independent of the effective uid");
#endif
    V_WITNESS();
}
#else
/* end-to-end digits */
void harness(void)
{
    V_HAVOC_IN();
    V_ASSUME(IN.nitems >= 1 && IN.nitems <= ITEMS);
    char list[ITEMS * (DIGITS + 1) + 1];
    unsigned long long val[ITEMS];
    size_t pos = 0;
    int member = 0;
    for (int k = 0; k < ITEMS; k++) {
        if (k >= IN.nitems) break;
        V_ASSUME(IN.ndig[k] >= 1 && IN.ndig[k] <= DIGITS);
        unsigned long long v = 0;
        if (k > 0) list[pos++] = ',';
        for (int d = 0; d < DIGITS; d++) {
            if (d >= IN.ndig[k]) break;
            char c = IN.arg[k * DIGITS + d];
            V_ASSUME(c >= '0' && c <= '9');
            list[pos++] = c;
            v = v * 10 + (unsigned)(c - '0');
        }
        V_ASSUME(v <= 4294967294ULL);
        val[k] = v;
        if (v == (unsigned long long)IN.uid) member = 1;
    }
    list[pos] = '\0';
    g_euid = IN.euid;
    int only = snoopy_filter_only_uid(list);
    int excl = snoopy_filter_exclude_uid(list);
    V_ASSERT(only == (member ? SNOOPY_FILTER_PASS : SNOOPY_FILTER_DROP), "C14: only_uid passes exactly the listed real uids (digits end to end)");
    V_ASSERT(excl == (member ? SNOOPY_FILTER_DROP : SNOOPY_FILTER_PASS), "C14: exclude_uid passes exactly the unlisted real uids (digits end to end)");
    V_WITNESS();
}
#endif
