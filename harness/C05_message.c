/* C05 (+ C02 memory safety of message.c / util/string.c / log-syscall-exec.c):
 * message format expansion is exact and length-bounded.
 *
 * Real code: action/log-syscall-exec.c (buffer sizing from the two limits),
 * message.c, util/string.c.  Stubs (harness): configuration record, filtering
 * (always PASS), dispatch (records the message), error handler (counts), the
 * data source registry: "a" echoes its argument, "f" fails with its argument
 * as error text, "n" succeeds and "g" fails without writing anything, every
 * other name is unknown.
 *
 * Oracle: independent reference expander below.
 *
 * -DFLEN=n   : format is n arbitrary bytes (+NUL)            (mode MODE_SYM)
 * -DTAGLEN=n : format is "%{" + n arbitrary non-'}' bytes + "}" + tail (mode MODE_TAG; real tag-buffer boundary)
 * -DLMAX=l -DDMAX=d : log_message_max_length / datasource_message_max_length (constants per query)
 */
#define _GNU_SOURCE
#include <stdlib.h>
#include <string.h>
#include <stdio.h>
#include "snoopy.h"
#include "configuration.h"
#include "message.h"
#include "action/log-syscall-exec.h"

#ifndef LMAX
#define LMAX 6
#endif
#ifndef DMAX
#define DMAX 2
#endif
#ifdef TAGLEN
#  define FCAP (TAGLEN + 8)
#else
#  ifndef FLEN
#  define FLEN 6
#  endif
#  define FCAP FLEN
#endif
#ifndef REFCAP
#define REFCAP 160
#endif

struct in_t { char fmt[FCAP + 1]; unsigned char taglen; unsigned char sel; char c; };
#include "verif.h"
V_DEFINE_IN

/* ---- stubs ------------------------------------------------------------ */
static snoopy_configuration_t g_cfg;
snoopy_configuration_t *snoopy_configuration_get(void) { return &g_cfg; }

int snoopy_filtering_check_chain(char const * const chain) { (void)chain; return SNOOPY_FILTER_PASS; }

static int  g_err_calls;
void snoopy_error_handler(char const * const msg) { (void)msg; g_err_calls++; }

static char g_out[LMAX + 4];
static int  g_dispatched;
static size_t g_out_len;
int snoopy_action_log_message_dispatch(const char *m)
{
    size_t n = strnlen(m, LMAX + 2);
    g_dispatched++;
    g_out_len = n;
    V_ASSERT(n <= LMAX, "C05: message never exceeds log_message_max_length");
    if (n <= LMAX) { for (size_t i = 0; i < n; i++) g_out[i] = m[i]; g_out[n] = 0; }
    return 1;
}

static size_t g_ds_bufsize_seen;
static int    g_ds_calls;
int snoopy_datasourceregistry_doesNameExist(char const * const name)
{
    return (name[0] == 'a' || name[0] == 'f' || name[0] == 'n' || name[0] == 'g') && name[1] == '\0';
}
int snoopy_datasourceregistry_callByName(char const * const name, char * const buf, size_t bufsize, char const * const arg)
{
    g_ds_calls++;
    g_ds_bufsize_seen = bufsize;
#ifdef CONCURRENT
    /* C09: another thread formats ITS record while this thread is inside a data source (the point at which a thread is
     * most likely to be preempted: data sources make system calls).  Sequentialised: the other thread's complete call runs
     * here, on its own buffers.  Anything the formatter keeps in static storage is overwritten by it. */
    {
        static int nested;
        if (!nested) {
            char other[8];
            nested = 1;
            other[0] = '\0';
            snoopy_message_generateFromFormat(other, sizeof other, DMAX + 1, "%{f:zz}q");
            nested = 0;
        }
    }
#endif
    V_ASSERT(bufsize >= 1 && bufsize <= (size_t)DMAX + 1, "C05: a data source is given room for at most datasource_message_max_length bytes (+NUL)");
    /* 'n' succeeds and 'g' fails WITHOUT writing anything (like the real noop, or cwd when getcwd() fails):
     * their contribution is the empty string, never what an earlier tag left in the scratch buffer */
    if (name[0] == 'n') return 0;
    if (name[0] == 'g') return SNOOPY_DATASOURCE_FAILURE;
    /* echo, the way every real source does it: snprintf(buf, bufsize, "%s", arg) */
    size_t i = 0;
    for (; arg[i] != '\0' && i + 1 < bufsize; i++) buf[i] = arg[i];
    if (bufsize > 0) buf[i] = '\0';
    return (name[0] == 'f') ? SNOOPY_DATASOURCE_FAILURE : (int)strlen(arg);
}

/* ---- reference expander (the documented grammar) ----------------------- */
#ifdef SCALED_TEXTS     /* message.c's five literals replaced (on its preprocessed text) by short ones: see props/C05.py */
#  define T_CLOSE   "[EC]"
#  define T_DS      "[E'"
#  define T_NF      "'NF]"
#  define T_FAILED  "'F'"
#  define T_END     "']"
#else
#  define T_CLOSE   "[ERROR: Closing data source tag ('}') not found.]"
#  define T_DS      "[ERROR: Data source '"
#  define T_NF      "' not found.]"
#  define T_FAILED  "' failed with the following error message: '"
#  define T_END     "']"
#endif
static char   r_out[REFCAP];
static size_t r_len;        /* full expansion length (may exceed REFCAP: then only counted) */
static size_t r_exact;      /* number of leading bytes of the expansion the oracle insists on */
static int    r_stopped;    /* an error text for unknown/unterminated tag was produced */
static int    r_long_tag;   /* a tag did not fit the (scaled) tag buffer: expansion of it is not predicted */
#ifndef TAGBUF
#define TAGBUF 100          /* smallest size the tag scratch buffer ever had in the real code */
#endif

static void r_put(const char *s, size_t n)
{
    for (size_t i = 0; i < n; i++) {
        if (r_len < REFCAP) r_out[r_len] = s[i];
        r_len++;
    }
}
static void r_puts(const char *s) { r_put(s, strlen(s)); }

static void reference(const char *fmt)
{
    size_t pos = 0, flen = strlen(fmt);
    r_len = 0; r_stopped = 0; r_long_tag = 0;
    while (pos < flen) {
        size_t t = pos;
        while (t + 1 < flen && !(fmt[t] == '%' && fmt[t + 1] == '{')) t++;
        if (!(t + 1 < flen)) {             /* no further tag: rest is literal */
            r_put(fmt + pos, flen - pos);
            break;
        }
        r_put(fmt + pos, t - pos);         /* literal text verbatim */
        size_t c = t + 2;
        while (c < flen && fmt[c] != '}') c++;
        if (c >= flen) {
            r_puts(T_CLOSE);
            r_stopped = 1;
            break;
        }
        if (c - (t + 2) >= TAGBUF) { r_long_tag = 1; break; }
        /* tag = fmt[t+2 .. c) ; name = up to first ':' */
        size_t ns = t + 2, ne = ns;
        while (ne < c && fmt[ne] != ':') ne++;
        size_t as = (ne < c) ? ne + 1 : c;      /* argument start (empty if no ':') */
        int known = (ne - ns == 1) && (fmt[ns] == 'a' || fmt[ns] == 'f' || fmt[ns] == 'n' || fmt[ns] == 'g');
        if (!known) {
            r_puts(T_DS);
            r_put(fmt + ns, ne - ns);
            r_puts(T_NF);
            r_stopped = 1;
            break;
        }
        size_t alen = c - as;
        if (alen > DMAX) alen = DMAX;           /* no source contributes more than D bytes */
        if (fmt[ns] == 'n' || fmt[ns] == 'g') alen = 0;     /* sources that write nothing contribute nothing */
        if (fmt[ns] == 'f' || fmt[ns] == 'g') {
            r_puts(T_DS);
            r_put(fmt + ns, 1);
            r_puts(T_FAILED);
            r_put(fmt + as, alen);
            r_puts(T_END);
        } else {
            r_put(fmt + as, alen);
        }
        pos = c + 1;
    }
    r_exact = r_len;
}

static int bytes_eq(const char *a, const char *b, size_t n)
{
    for (size_t i = 0; i < n; i++) if (a[i] != b[i]) return 0;     /* plain loop: memcmp/memcpy go through CBMC's array theory */
    return 1;
}

static void run_and_check(void)
{
    g_cfg.initialized = SNOOPY_TRUE;
    g_cfg.filtering_enabled = SNOOPY_TRUE;
    g_cfg.filter_chain = "";
    g_cfg.message_format = IN.fmt;
    g_cfg.log_message_max_length = LMAX;
    g_cfg.datasource_message_max_length = DMAX;

    snoopy_action_log_syscall_exec();

    V_ASSERT(g_out_len <= LMAX, "C05: message length bounded by log_message_max_length");
#ifdef LEAN     /* memory-safety / length-bound only (used for the real-size tag buffer boundary) */
    return;
#endif
    reference(IN.fmt);
    V_ASSERT(g_dispatched == 1, "C05: the action hands exactly one message to dispatch");
    V_ASSERT(g_out_len <= LMAX, "C05: message length bounded by log_message_max_length");
    if (r_len <= LMAX && r_len < REFCAP && !r_long_tag) {
        if (!r_stopped) {
            V_ASSERT(g_out_len == r_len, "C05: full expansion fits => emitted with exact length");
            V_ASSERT(bytes_eq(g_out, r_out, r_len), "C05: full expansion fits => emitted byte for byte");
        } else {
            /* after an error text for an unknown / unterminated tag the code may stop
             * (today's behaviour) or continue: only the prefix through the error text is required */
            V_ASSERT(g_out_len >= r_len, "C05: error text for unknown/unterminated tag present");
            V_ASSERT(bytes_eq(g_out, r_out, r_len), "C05: expansion up to and including the error text is exact");
        }
    }
}

#ifndef TAGLEN
/* mode SYM: every byte of the format symbolic; with -DTEMPLATE="..": bytes marked '?' symbolic, the others fixed
 * (longer multi-tag formats at the price of a few symbolic bytes) */
void harness(void)
{
    V_HAVOC_IN();
    IN.fmt[FCAP] = '\0';
#ifdef TEMPLATE
    { static const char tmpl_[] = TEMPLATE;
      for (unsigned i_ = 0; i_ < sizeof tmpl_ - 1 && i_ < FCAP; i_++) if (tmpl_[i_] != '?') IN.fmt[i_] = tmpl_[i_]; }
#endif
    run_and_check();
    V_WITNESS();
}
#else
/* mode TAG: "%{" + tag of exactly TAGLEN bytes + "}z".  The tag's first 3 and last 3 bytes are symbolic
 * (not '}' / NUL), the middle is 'x' filler: the boundary behaviour depends on the length. */
void harness(void)
{
    V_HAVOC_IN();
    IN.fmt[0] = '%'; IN.fmt[1] = '{';
    for (unsigned i = 0; i < TAGLEN; i++) {
        if (i < 3 || i + 3 >= TAGLEN) V_ASSUME(IN.fmt[2 + i] != '}' && IN.fmt[2 + i] != '\0');
        else IN.fmt[2 + i] = 'x';
    }
    IN.fmt[2 + TAGLEN] = '}';
    IN.fmt[3 + TAGLEN] = 'z';
    IN.fmt[4 + TAGLEN] = '\0';
    run_and_check();
    V_WITNESS();
}
#endif

#if !defined(TAGLEN) && FLEN >= 6
/* mode TEXTS: the three documented error texts with the real literals; format chosen by IN.sel, one symbolic byte */
void harness_texts(void)
{
    V_HAVOC_IN();
    V_ASSUME(IN.c != '\0' && IN.c != '}' && IN.c != ':' && IN.c != 'a' && IN.c != 'f');
#ifdef TEXTC
    char c = TEXTC;     /* fully concrete run: checks the real literals only */
#else
    char c = IN.c;
#endif
    memset(IN.fmt, 0, sizeof IN.fmt);
#ifndef TEXTSEL
#define TEXTSEL (IN.sel % 4)
#endif
    switch (TEXTSEL) {
    case 0: IN.fmt[0] = '%'; IN.fmt[1] = '{'; IN.fmt[2] = c; IN.fmt[3] = '}'; break;                       /* unknown source */
    case 1: IN.fmt[0] = c; IN.fmt[1] = '%'; IN.fmt[2] = '{'; IN.fmt[3] = c; break;                          /* unterminated tag */
    case 2: IN.fmt[0] = '%'; IN.fmt[1] = '{'; IN.fmt[2] = 'f'; IN.fmt[3] = ':'; IN.fmt[4] = c; IN.fmt[5] = '}'; break; /* failing source */
    default: IN.fmt[0] = '%'; IN.fmt[1] = '{'; IN.fmt[2] = 'a'; IN.fmt[3] = ':'; IN.fmt[4] = c; IN.fmt[5] = '}'; break; /* working source */
    }
    IN.c = c;
    run_and_check();
    V_WITNESS();
}
#endif
