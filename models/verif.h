/* verif.h - dual-mode (CBMC / native replay) harness support.
 *
 * Every nondeterministic input of a harness lives in ONE global struct `IN`
 * (type `struct in_t`, defined by the harness before V_DEFINE_IN).  Under CBMC
 * V_HAVOC_IN() makes it fully nondeterministic; in a native replay build
 * (-DREPLAY) `IN` is initialised with the solver's values from the generated
 * replay_inputs.h and V_HAVOC_IN() is a no-op.
 *
 * Environment models (vlibc.c) draw their nondeterministic decisions from
 * v_ch[] via v_choice(); a harness that uses them has `int ch[V_NCH];` in its
 * struct in_t and calls V_LOAD_CH() after V_HAVOC_IN().  A counterexample is
 * therefore completely described by the value of IN.
 */
#ifndef VERIF_H
#define VERIF_H

#include <stddef.h>

#ifndef V_NCH
#define V_NCH 24
#endif
extern int v_ch[V_NCH];
extern int v_ch_n;
int v_choice(void);            /* next environment decision (0 when the budget is used up) */

#ifdef VERIF_CBMC
#  define V_ASSERT(c, msg)  __CPROVER_assert((c), msg)
#  define V_ASSUME(c)       __CPROVER_assume(c)
#  define V_HAVOC_IN()      do { IN = nondet_in_t(); } while (0)
#  define V_DEFINE_IN       struct in_t nondet_in_t(void); struct in_t IN;
#  define V_NATIVE 0
#else
#  include <stdio.h>
#  include <unistd.h>
#  define V_ASSERT(c, msg)  do { if (!(c)) { dprintf(2, "REPLAY-ASSERT-FAIL: %s (%s:%d)\n", msg, __FILE__, __LINE__); _exit(97); } } while (0)
#  define V_ASSUME(c)       do { if (!(c)) { dprintf(2, "REPLAY-ASSUME-FALSE: %s (%s:%d)\n", #c, __FILE__, __LINE__); _exit(98); } } while (0)
#  define V_HAVOC_IN()      do { } while (0)
#  if defined(REPLAY) && defined(V_ENTRY)      /* only the harness translation unit carries the inputs */
#    include "replay_inputs.h"
#    define V_DEFINE_IN     struct in_t IN = V_IN_INIT; void V_ENTRY(void); int main(void) { V_ENTRY(); return 0; }
#  else
#    define V_DEFINE_IN     struct in_t IN;
#  endif
#  define V_NATIVE 1
#endif

#define V_LOAD_CH()  do { for (int v_i_ = 0; v_i_ < V_NCH; v_i_++) v_ch[v_i_] = IN.ch[v_i_]; v_ch_n = 0; } while (0)

/* Vacuity witness: every harness ends with V_WITNESS().  The runner requires
 * the property "WITNESS ..." to come back FAILED (= the end of the harness is
 * reachable under the assumptions) and every other property to hold. */
#ifdef VERIF_CBMC
#  define V_WITNESS()       __CPROVER_assert(0, "WITNESS harness end reachable")
#else
#  define V_WITNESS()       do { } while (0)
#endif

#endif
