/* vlibc_native.h - forced include (-include) for NATIVE replay builds only.
 *
 * Includes every system header first (so their declarations are untouched),
 * declares the v_* models, then maps every *call* `f(...)` of a modelled
 * function to `v_f(...)`.  Applied to the repo units, the harness and the
 * model sources alike, so model definitions `T f(args) {` become `T v_f(args) {`.
 */
#ifndef VLIBC_NATIVE_H
#define VLIBC_NATIVE_H
#ifndef _GNU_SOURCE
#define _GNU_SOURCE
#endif
#include <stdarg.h>
#include <stddef.h>
#include <stdint.h>
#include <stdio.h>
#include <stdlib.h>
#include <string.h>
#include <strings.h>
#include <ctype.h>
#include <errno.h>
#include <limits.h>
#include <unistd.h>
#include <fcntl.h>
#include <time.h>
#include <pwd.h>
#include <grp.h>
#include <syslog.h>
#include <dlfcn.h>
#include <pthread.h>
#include <sched.h>
#include <utmp.h>
#include <sys/types.h>
#include <sys/stat.h>
#include <sys/time.h>
#include <sys/socket.h>
#include <sys/un.h>
#include <sys/syscall.h>
#include <sys/utsname.h>

/* strings / numbers / formatting (vlibc.c) */
char *v_strstr(const char *, const char *);
char *v_strcasestr(const char *, const char *);
size_t v_strnlen(const char *, size_t);
char *v_strtok_r(char *, const char *, char **);
char *v_strdup(const char *);
size_t v_strspn(const char *, const char *);
size_t v_strcspn(const char *, const char *);
char *v_strpbrk(const char *, const char *);
char *v_strsep(char **, const char *);
char *v_strndup(const char *, size_t);
long v_atol(const char *);
long v_strtol(const char *, char **, int);
long long v_strtoll(const char *, char **, int);
unsigned long v_strtoul(const char *, char **, int);
unsigned long long v_strtoull(const char *, char **, int);
int v_atoi(const char *);
long long v_atoll(const char *);
int v_vsnprintf(char *, size_t, const char *, va_list);
int v_snprintf(char *, size_t, const char *, ...);
int v_sscanf(const char *, const char *, ...);
#define strstr(...)     v_strstr(__VA_ARGS__)
#define strcasestr(...) v_strcasestr(__VA_ARGS__)
#define strnlen(...)    v_strnlen(__VA_ARGS__)
#define strtok_r(...)   v_strtok_r(__VA_ARGS__)
#define strdup(...)     v_strdup(__VA_ARGS__)
#define strspn(...)     v_strspn(__VA_ARGS__)
#define strcspn(...)    v_strcspn(__VA_ARGS__)
#define strpbrk(...)    v_strpbrk(__VA_ARGS__)
#define strsep(...)     v_strsep(__VA_ARGS__)
#define strndup(...)    v_strndup(__VA_ARGS__)
#define atol(...)       v_atol(__VA_ARGS__)
#define strtol(...)     v_strtol(__VA_ARGS__)
#define strtoll(...)    v_strtoll(__VA_ARGS__)
#define strtoul(...)    v_strtoul(__VA_ARGS__)
#define strtoull(...)   v_strtoull(__VA_ARGS__)
#define atoi(...)       v_atoi(__VA_ARGS__)
#define atoll(...)      v_atoll(__VA_ARGS__)
#define vsnprintf(...)  v_vsnprintf(__VA_ARGS__)
#define snprintf(...)   v_snprintf(__VA_ARGS__)
#define sscanf(...)     v_sscanf(__VA_ARGS__)

#include "vlibc_native_more.h"
#endif
