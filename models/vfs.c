/* vfs.c - stdio / socket environment model (DESIGN 2.2).
 *
 * Contract transcribed from POSIX / the C standard:
 *  - fopen(): may fail (decision from v_choice(), errno arbitrary); "r*" modes ask the harness for
 *    the virtual file (v_fs_lookup) and fail with ENOENT if it does not exist; "a" => O_APPEND|O_CREAT,
 *    never truncates; "w" => O_TRUNC at open.
 *  - fprintf()/fwrite(): bytes go to the stream's stdio buffer (pending); a buffer of capacity
 *    v_stdio_bufsize reaches the descriptor in ONE write() per flush only while the pending data fits,
 *    otherwise in >= 2 writes.  stderr is unbuffered.  stdout may be fully buffered (pipe / file):
 *    its bytes stay pending until fflush(stdout)/exit - they are lost if the process image is replaced.
 *  - fclose(): flushes, releases the stream.
 *  - fread(): may return fewer bytes than asked (short read), sets eof/err.
 *  - socket()/connect()/send()/close(): every call may fail; type/flags recorded.
 * Every decision comes from v_choice(); every effect is recorded in the ghost state of vfs.h.
 */
#ifndef _GNU_SOURCE
#define _GNU_SOURCE
#endif
#include <errno.h>
#include <stdarg.h>
#include <stdio.h>
#include <stdlib.h>
#include <string.h>
#include <unistd.h>
#include <sys/types.h>
#include <sys/socket.h>
#include <sys/un.h>
#include <fcntl.h>
#include "verif.h"
#include "vfs.h"

struct v_stream v_st[V_NFILES];
struct v_wrec   v_w[V_NW];
int    v_nw;
int    v_fopen_calls, v_fopen_ok, v_fclose_calls, v_open_streams;
char   v_last_path[V_PATHCAP];
char   v_last_mode[4];
size_t v_stdout_pending;
int    v_stdout_os_writes;
size_t v_stdio_bufsize = 4096;
int    v_no_short_reads;               /* harness switch: fread returns everything available or fails */
int    v_fread_calls, v_fread_full;
int    v_fd_flags;
int    v_sock_calls, v_sock_open, v_sock_type, v_sock_domain, v_connect_calls, v_send_calls, v_send_flags, v_close_calls;
char   v_sock_path[V_PATHCAP];
int    v_sock_addrlen;

#define V_FILE_FD 9
static int v_fd_slot = -1;
static FILE v_fobj[V_NFILES];
#ifdef VERIF_CBMC
static FILE v_stdout_obj, v_stderr_obj;
FILE *stdout = &v_stdout_obj;
FILE *stderr = &v_stderr_obj;
#endif

#define V_SOCK_FD 7

static void v_copy_bounded(char *dst, size_t cap, const char *src)
{
    size_t i = 0;
    for (; i + 1 < cap && src[i] != '\0'; i++) dst[i] = src[i];
    dst[i] = '\0';
}

void v_fs_reset(void)
{
    for (int i = 0; i < V_NFILES; i++) v_st[i].open = 0;
    v_fd_slot = -1;
    v_nw = 0; v_fopen_calls = v_fopen_ok = v_fclose_calls = v_open_streams = 0; v_fread_calls = v_fread_full = 0;
    v_stdout_pending = 0; v_stdout_os_writes = 0;
    v_sock_calls = v_sock_open = v_connect_calls = v_send_calls = v_close_calls = 0;
    v_last_path[0] = '\0'; v_last_mode[0] = '\0'; v_sock_path[0] = '\0';
}

int v_stream_index(FILE *fp)
{
    for (int i = 0; i < V_NFILES; i++) if (fp == &v_fobj[i]) return i;
    return -1;
}

static int v_errno_choice(void)
{
    int e = v_choice();
    if (e <= 0 || e > 133) e = EIO;
    return e;
}

FILE *fopen(const char *path, const char *mode)
{
    v_fopen_calls++;
    V_ASSERT(v_fopen_calls <= 6, "C03: unbounded retry / recursion on a failing sink (more than 6 opens for one logged exec)");
#ifdef VERIF_CBMC
    __CPROVER_assume(v_fopen_calls <= 6);       /* the violation is recorded; do not unwind the runaway any further */
#endif
    v_copy_bounded(v_last_path, V_PATHCAP, path);
    v_copy_bounded(v_last_mode, 4, mode);
    if (v_choice() & 1) { errno = v_errno_choice(); return NULL; }      /* open fails: EACCES, EMFILE, ENOSPC, EISDIR ... */
    int i = 0;
    while (i < V_NFILES && v_st[i].open) i++;
    if (i >= V_NFILES) { errno = EMFILE; return NULL; }
    struct v_stream *s = &v_st[i];
    s->readable = (mode[0] == 'r') || (mode[1] == '+') || (mode[1] != '\0' && mode[2] == '+');
    s->writable = (mode[0] != 'r') || (mode[1] == '+') || (mode[1] != '\0' && mode[2] == '+');
    s->append   = (mode[0] == 'a');
    s->truncate = (mode[0] == 'w');
    s->content = NULL; s->len = 0; s->pos = 0; s->err = 0; s->eof = 0; s->pending = 0; s->os_writes = 0; s->os_bytes = 0; s->bufmode = _IOFBF;
    if (mode[0] == 'r') {
        struct v_vfile vf = { 0, NULL, 0 };
        v_fs_lookup(path, &vf);
        if (!vf.exists) { errno = ENOENT; return NULL; }
        s->content = vf.content; s->len = vf.len;
    }
    s->open = 1;
    v_copy_bounded(s->path, V_PATHCAP, path);
    v_copy_bounded(s->mode, 4, mode);
    v_open_streams++;
    v_fopen_ok++;
    return &v_fobj[i];
}

static void v_flush_stream(struct v_stream *s)
{
    if (s->pending == 0) return;
    /* one write() only while the buffered data fits the stdio buffer, otherwise at least two */
    s->os_writes += (s->pending <= v_stdio_bufsize) ? 1 : 2;
    s->os_bytes += s->pending;
    s->pending = 0;
}

int fclose(FILE *fp)
{
    int i = v_stream_index(fp);
    v_fclose_calls++;
    V_ASSERT(i >= 0, "STDIO MISUSE fclose: not a stream returned by fopen");
    if (i < 0) return EOF;
    V_ASSERT(v_st[i].open, "STDIO MISUSE fclose: stream already closed (double close)");
    v_flush_stream(&v_st[i]);
    v_st[i].open = 0;
    v_open_streams--;
    return (v_choice() & 1) ? EOF : 0;        /* a failing close still releases the stream */
}

/* setvbuf: line buffered => a flush at every newline stored; unbuffered => every call is written at once */
int setvbuf(FILE *fp, char *buf, int mode, size_t size)
{
    (void)buf; (void)size;
    int i = v_stream_index(fp);
    if (i >= 0) v_st[i].bufmode = mode;
    return 0;
}

int fflush(FILE *fp)
{
    if (fp == stdout || fp == NULL) {
        if (v_stdout_pending > 0) { v_stdout_os_writes += (v_stdout_pending <= v_stdio_bufsize) ? 1 : 2; v_stdout_pending = 0; }
        if (fp == stdout) return 0;
    }
    if (fp == stderr) return 0;
    for (int i = 0; i < V_NFILES; i++)
        if (v_st[i].open && (fp == NULL || fp == &v_fobj[i])) v_flush_stream(&v_st[i]);
    return 0;
}

int vfprintf(FILE *fp, const char *fmt, va_list ap)
{
    int dest = (fp == stdout) ? V_DEST_STDOUT : (fp == stderr) ? V_DEST_STDERR : V_DEST_FILE;
    int i = (dest == V_DEST_FILE) ? v_stream_index(fp) : -1;
    if (dest == V_DEST_FILE) {
        V_ASSERT(i >= 0 && v_st[i].open, "STDIO MISUSE fprintf: stream is not open (use after close)");
        if (i < 0) return -1;
        V_ASSERT(v_st[i].writable, "STDIO MISUSE fprintf: stream not opened for writing");
    }
    struct v_wrec scratch;
    struct v_wrec *r = (v_nw < V_NW) ? &v_w[v_nw] : &scratch;
    int n = vsnprintf(r->data, V_WCAP, fmt, ap);
    if (n < 0) return n;
    r->dest = dest; r->stream = i; r->len = (size_t)n;
    if (v_choice() & 1) {                     /* the write fails (EIO, ENOSPC, EPIPE handled by caller policy ...) */
        r->complete = 0;
        if (n > 0) v_nw++;
        errno = v_errno_choice();
        return -1;
    }
    r->complete = 1;
    if (n > 0) v_nw++;
    if (dest == V_DEST_STDOUT) v_stdout_pending += (size_t)n;
    else if (dest == V_DEST_FILE) {
        struct v_stream *st = &v_st[i];
        if (st->bufmode == _IONBF) { st->os_writes += 1; st->os_bytes += (size_t)n; }
        else if (st->bufmode == _IOLBF) {
            /* everything up to and including each newline is handed over as soon as it is stored */
            size_t last = 0, k = 0;
            for (; k < (size_t)n && k < V_WCAP; k++)
                if (r->data[k] == '\n') { st->os_writes += 1; st->os_bytes += k + 1 - last; last = k + 1; }
            st->pending += (size_t)n - last;
        }
        else st->pending += (size_t)n;
    }
    return n;
}

int fprintf(FILE *fp, const char *fmt, ...)
{
    va_list ap; int r;
    va_start(ap, fmt); r = vfprintf(fp, fmt, ap); va_end(ap);
    return r;
}

int printf(const char *fmt, ...)
{
    va_list ap; int r;
    va_start(ap, fmt); r = vfprintf(stdout, fmt, ap); va_end(ap);
    return r;
}

size_t fread(void *buf, size_t size, size_t nmemb, FILE *fp)
{
    int i = v_stream_index(fp);
    V_ASSERT(i >= 0 && v_st[i].open && v_st[i].readable, "STDIO MISUSE fread: stream not open for reading");
    if (i < 0 || size == 0 || nmemb == 0) return 0;
    struct v_stream *s = &v_st[i];
    size_t want = size * nmemb, avail = s->len - s->pos, n = (want < avail) ? want : avail;
    int c = v_choice();
    v_fread_calls++;
    if (c & 1) { s->err = 1; errno = v_errno_choice(); n = v_no_short_reads ? 0 : (size_t)((unsigned)c >> 1) % (n + 1); }   /* read error after a short count */
    else if ((c & 2) && !v_no_short_reads) { n = (size_t)((unsigned)c >> 2) % (n + 1); }                                   /* short read without error */
    else v_fread_full++;
    for (size_t k = 0; k < n; k++) ((char *)buf)[k] = s->content[s->pos + k];
    s->pos += n;
    if (n < want && !s->err && s->pos >= s->len) s->eof = 1;
    return n / size;
}

int ferror(FILE *fp) { int i = v_stream_index(fp); return (i >= 0) ? v_st[i].err : 0; }
int feof(FILE *fp)   { int i = v_stream_index(fp); return (i >= 0) ? v_st[i].eof : 0; }
void clearerr(FILE *fp) { int i = v_stream_index(fp); if (i >= 0) { v_st[i].err = 0; v_st[i].eof = 0; } }

int fseek(FILE *fp, long off, int whence)
{
    int i = v_stream_index(fp);
    V_ASSERT(i >= 0 && v_st[i].open, "STDIO MISUSE fseek: stream not open");
    if (i < 0) return -1;
    if (v_choice() & 1) { errno = v_errno_choice(); return -1; }
    struct v_stream *s = &v_st[i];
    long base = (whence == SEEK_SET) ? 0 : (whence == SEEK_CUR) ? (long)s->pos : (long)s->len;
    long np = base + off;
    if (np < 0) { errno = EINVAL; return -1; }
    s->pos = (size_t)np; s->eof = 0;
    return 0;
}

long ftell(FILE *fp)
{
    int i = v_stream_index(fp);
    V_ASSERT(i >= 0 && v_st[i].open, "STDIO MISUSE ftell: stream not open");
    if (i < 0) return -1;
    if (v_choice() & 1) { errno = v_errno_choice(); return -1; }
    return (long)v_st[i].pos;
}

char *fgets(char *buf, int size, FILE *fp)
{
    int i = v_stream_index(fp);
    V_ASSERT(i >= 0 && v_st[i].open && v_st[i].readable, "STDIO MISUSE fgets: stream not open for reading");
    if (i < 0 || size <= 0) return NULL;
    struct v_stream *s = &v_st[i];
    if (v_choice() & 1) { s->err = 1; return NULL; }
    int n = 0;
    while (n + 1 < size && s->pos < s->len) {
        char c = s->content[s->pos++];
        buf[n++] = c;
        if (c == '\n') break;
    }
    if (n == 0) { s->eof = 1; return NULL; }
    buf[n] = '\0';
    return buf;
}

#ifndef V_LINE_CAP
#define V_LINE_CAP 24
#endif
ssize_t getline(char **lineptr, size_t *n, FILE *fp)
{
    int i = v_stream_index(fp);
    V_ASSERT(i >= 0 && v_st[i].open && v_st[i].readable, "STDIO MISUSE getline: stream not open for reading");
    if (i < 0) return -1;
    struct v_stream *s = &v_st[i];
    if (*lineptr == NULL) {                 /* getline allocates even when it then fails (POSIX: caller frees) */
        *lineptr = malloc(V_LINE_CAP);
#ifdef VERIF_CBMC
        __CPROVER_assume(*lineptr != NULL);
#endif
        *n = V_LINE_CAP;
    }
    if (v_choice() & 1) { s->err = 1; errno = v_errno_choice(); return -1; }
    if (s->pos >= s->len) { s->eof = 1; return -1; }
    size_t k = 0;
    while (s->pos < s->len) {
        char c = s->content[s->pos++];
        V_ASSERT(k + 2 <= V_LINE_CAP, "MODEL getline: line longer than harness capacity V_LINE_CAP (raise the bound)");
        if (k + 2 > V_LINE_CAP) break;
        (*lineptr)[k++] = c;
        if (c == '\n') break;
    }
    (*lineptr)[k] = '\0';
    return (ssize_t)k;
}

/* ---- sockets ------------------------------------------------------------ */
int socket(int domain, int type, int protocol)
{
    (void)protocol;
    v_sock_calls++;
    V_ASSERT(v_sock_calls <= 6, "C03: unbounded retry / recursion on a failing sink (more than 6 sockets for one logged exec)");
#ifdef VERIF_CBMC
    __CPROVER_assume(v_sock_calls <= 6);
#endif
    v_sock_domain = domain; v_sock_type = type;
    if (v_choice() & 1) { errno = v_errno_choice(); return -1; }
    v_sock_open++;
    return V_SOCK_FD;
}

int connect(int fd, const struct sockaddr *addr, socklen_t len)
{
    v_connect_calls++;
    V_ASSERT(fd == V_SOCK_FD && v_sock_open > 0, "DESCRIPTOR MISUSE connect: not an open socket");
    v_sock_addrlen = (int)len;
    if (addr != NULL && addr->sa_family == AF_LOCAL) {
        const struct sockaddr_un *un = (const struct sockaddr_un *)addr;
        size_t i = 0, maxp = (len > sizeof(un->sun_family)) ? (size_t)len - sizeof(un->sun_family) : 0;
        for (; i + 1 < V_PATHCAP && i < maxp && i < sizeof(un->sun_path) && un->sun_path[i] != '\0'; i++) v_sock_path[i] = un->sun_path[i];
        v_sock_path[i] = '\0';
    }
    if (v_choice() & 1) { errno = v_errno_choice(); return -1; }     /* ENOENT, ECONNREFUSED, EAGAIN (queue full) ... */
    return 0;
}

ssize_t send(int fd, const void *buf, size_t n, int flags)
{
    v_send_calls++;
    V_ASSERT(fd == V_SOCK_FD && v_sock_open > 0, "DESCRIPTOR MISUSE send: not an open socket");
    v_send_flags = flags;
    struct v_wrec scratch;
    struct v_wrec *r = (v_nw < V_NW) ? &v_w[v_nw] : &scratch;
    r->dest = V_DEST_SOCKET; r->stream = -1; r->len = n;
    for (size_t k = 0; k < n && k < V_WCAP; k++) r->data[k] = ((const char *)buf)[k];
    if (v_choice() & 1) { r->complete = 0; v_nw++; errno = v_errno_choice(); return -1; }   /* EAGAIN (full queue), ENOBUFS, EPIPE ... */
    r->complete = 1;
    v_nw++;
    return (ssize_t)n;
}

/* ---- descriptor-level file I/O (open / write / close) ------------------------------------- */
/* One descriptor at a time (V_FILE_FD), backed by a slot of the stream table so that the same ghosts describe a
 * file whether the code uses stdio or system calls: path, append/truncate, write() calls, bytes. */

int open(const char *path, int flags, ...)
{
    v_fopen_calls++;
    V_ASSERT(v_fopen_calls <= 6, "C03: unbounded retry / recursion on a failing sink (more than 6 opens for one logged exec)");
#ifdef VERIF_CBMC
    __CPROVER_assume(v_fopen_calls <= 6);
#endif
    v_copy_bounded(v_last_path, V_PATHCAP, path);
    v_last_mode[0] = (flags & O_TRUNC) ? 'w' : (flags & O_APPEND) ? 'a' : ((flags & O_ACCMODE) == O_RDONLY) ? 'r' : 'u';
    v_last_mode[1] = '\0';
    v_fd_flags = flags;
    if (v_choice() & 1) { errno = v_errno_choice(); return -1; }
    int i = 0;
    while (i < V_NFILES && v_st[i].open) i++;
    if (i >= V_NFILES || v_fd_slot >= 0) { errno = EMFILE; return -1; }
    struct v_stream *s = &v_st[i];
    s->readable = ((flags & O_ACCMODE) != O_WRONLY); s->writable = ((flags & O_ACCMODE) != O_RDONLY);
    s->append = (flags & O_APPEND) != 0; s->truncate = (flags & O_TRUNC) != 0;
    s->content = NULL; s->len = 0; s->pos = 0; s->err = 0; s->eof = 0; s->pending = 0; s->os_writes = 0; s->os_bytes = 0; s->bufmode = _IONBF;
    if (!s->writable) {
        struct v_vfile vf = { 0, NULL, 0 };
        v_fs_lookup(path, &vf);
        if (!vf.exists) { errno = ENOENT; return -1; }
        s->content = vf.content; s->len = vf.len;
    }
    s->open = 1;
    v_copy_bounded(s->path, V_PATHCAP, path);
    v_copy_bounded(s->mode, 4, v_last_mode);
    v_open_streams++; v_fopen_ok++;
    v_fd_slot = i;
    return V_FILE_FD;
}

ssize_t write(int fd, const void *buf, size_t n)
{
    struct v_wrec scratch;
    struct v_wrec *r = (v_nw < V_NW) ? &v_w[v_nw] : &scratch;
    int dest = (fd == 1) ? V_DEST_STDOUT : (fd == 2) ? V_DEST_STDERR : V_DEST_FILE;
    if (dest == V_DEST_FILE) {
        V_ASSERT(fd == V_FILE_FD && v_fd_slot >= 0, "DESCRIPTOR MISUSE write: descriptor is not open");
        if (fd != V_FILE_FD || v_fd_slot < 0) { errno = EBADF; return -1; }
        V_ASSERT(v_st[v_fd_slot].writable, "DESCRIPTOR MISUSE write: descriptor not opened for writing");
    }
    r->dest = dest; r->stream = (dest == V_DEST_FILE) ? v_fd_slot : -1; r->len = n;
    for (size_t k = 0; k < n && k < V_WCAP; k++) r->data[k] = ((const char *)buf)[k];
    if (n > 0) v_nw++;
    if (v_choice() & 1) { r->complete = 0; errno = v_errno_choice(); return -1; }      /* ENOSPC, EIO, EDQUOT ... */
    r->complete = 1;
    if (dest == V_DEST_FILE) { v_st[v_fd_slot].os_writes += 1; v_st[v_fd_slot].os_bytes += n; }
    else if (dest == V_DEST_STDOUT) v_stdout_os_writes += 1;
    return (ssize_t)n;
}

int close(int fd)
{
    v_close_calls++;
    if (fd == V_FILE_FD) {
        V_ASSERT(v_fd_slot >= 0, "DESCRIPTOR MISUSE close: file descriptor is not open (double close)");
        if (v_fd_slot >= 0) { v_st[v_fd_slot].open = 0; v_open_streams--; v_fd_slot = -1; }
        return (v_choice() & 1) ? -1 : 0;
    }
    V_ASSERT(fd == V_SOCK_FD && v_sock_open > 0, "DESCRIPTOR MISUSE close: descriptor is not open (double close or foreign descriptor)");
    if (fd == V_SOCK_FD && v_sock_open > 0) v_sock_open--;
    return (v_choice() & 1) ? -1 : 0;
}

/* further stdio writers: same record log as fprintf, without going through the format interpreter */
static int v_stdio_put(FILE *fp, const char *bytes, size_t n)
{
    int dest = (fp == stdout) ? V_DEST_STDOUT : (fp == stderr) ? V_DEST_STDERR : V_DEST_FILE;
    int i = (dest == V_DEST_FILE) ? v_stream_index(fp) : -1;
    if (dest == V_DEST_FILE) {
        V_ASSERT(i >= 0 && v_st[i].open, "STDIO MISUSE write: stream is not open (use after close)");
        if (i < 0) return -1;
        V_ASSERT(v_st[i].writable, "STDIO MISUSE write: stream not opened for writing");
    }
    struct v_wrec scratch;
    struct v_wrec *r = (v_nw < V_NW) ? &v_w[v_nw] : &scratch;
    for (size_t k = 0; k < n && k < V_WCAP; k++) r->data[k] = bytes[k];
    r->dest = dest; r->stream = i; r->len = n;
    if (n > 0) v_nw++;
    if (v_choice() & 1) { r->complete = 0; errno = v_errno_choice(); return -1; }
    r->complete = 1;
    if (dest == V_DEST_STDOUT) v_stdout_pending += n;
    else if (dest == V_DEST_FILE) {
        struct v_stream *st = &v_st[i];
        if (st->bufmode == _IONBF) { st->os_writes += 1; st->os_bytes += n; }
        else st->pending += n;          /* (line-buffered streams: only fprintf models the per-newline flush) */
    }
    return (int)n;
}
int fputs(const char *s, FILE *fp) { return (v_stdio_put(fp, s, strlen(s)) < 0) ? EOF : 1; }
int fputc(int c, FILE *fp) { char ch = (char)c; return (v_stdio_put(fp, &ch, 1) < 0) ? EOF : (unsigned char)c; }
int puts(const char *s) { if (v_stdio_put(stdout, s, strlen(s)) < 0) return EOF; return (v_stdio_put(stdout, "\n", 1) < 0) ? EOF : 1; }
size_t fwrite(const void *p, size_t size, size_t nmemb, FILE *fp)
{
    int r = v_stdio_put(fp, (const char *)p, size * nmemb);
    return (r < 0 || size == 0) ? 0 : (size_t)r / size;
}

int access(const char *path, int mode)
{
    (void)path; (void)mode;
    if (v_choice() & 1) { errno = v_errno_choice(); return -1; }
    return 0;
}
