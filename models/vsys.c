/* vsys.c - identity / system environment model (DESIGN 2.2).
 *
 * Every query of the process state returns the value the HARNESS put into the ghost record `v_sys`
 * (so the oracle can refer to it), every call that may fail does so by decision of v_choice().
 * Process-level effects the library must never cause (exit, abort, signals, environment / cwd /
 * umask changes, blocking waits) are modelled as assertion failures.
 */
#ifndef _GNU_SOURCE
#define _GNU_SOURCE
#endif
#include <errno.h>
#include <stdarg.h>
#include <stdio.h>
#include <stdlib.h>
#include <string.h>
#include <unistd.h>
#include <time.h>
#include <pwd.h>
#include <grp.h>
#include <sys/types.h>
#include <sys/stat.h>
#include <sys/time.h>
#include <sys/syscall.h>
#include "verif.h"
#include "vsys.h"

struct v_sys_t v_sys;

uid_t getuid(void)  { v_sys.n_getuid++;  return v_sys.uid; }
uid_t geteuid(void) { v_sys.n_geteuid++; return v_sys.euid; }
gid_t getgid(void)  { v_sys.n_getgid++;  return v_sys.gid; }
gid_t getegid(void) { v_sys.n_getegid++; return v_sys.egid; }
pid_t getpid(void)  { return v_sys.pid; }
pid_t getppid(void) { return v_sys.ppid; }
pid_t getsid(pid_t p) { v_sys.getsid_arg = p; if (v_sys.sid_fails) { errno = ESRCH; return (pid_t)-1; } return v_sys.sid; }

long syscall(long nr, ...)
{
    v_sys.syscall_nr = nr;
    return (long)v_sys.tid;
}

static void v_cpy(char *dst, size_t cap, const char *src)
{
    size_t i = 0;
    if (cap == 0) return;
    for (; i + 1 < cap && src[i] != '\0'; i++) dst[i] = src[i];
    dst[i] = '\0';
}

int ttyname_r(int fd, char *buf, size_t len)
{
    v_sys.ttyname_fd = fd;
    v_sys.n_ttyname++;
    if (v_sys.tty_rc != 0) return v_sys.tty_rc;             /* EBADF, ENOTTY, ERANGE, ... */
    if (strlen(v_sys.tty) + 1 > len) return ERANGE;
    v_cpy(buf, len, v_sys.tty);
    return 0;
}

int stat(const char *path, struct stat *st)
{
    v_cpy(v_sys.stat_path, sizeof v_sys.stat_path, path);
    if (v_choice() & 1) { errno = ENOENT; return -1; }
    st->st_uid = v_sys.tty_uid;
    return 0;
}

char *getcwd(char *buf, size_t size)
{
    if (v_sys.cwd_fails) { errno = ENOENT; return NULL; }
    if (strlen(v_sys.cwd) + 1 > size) { errno = ERANGE; return NULL; }
    v_cpy(buf, size, v_sys.cwd);
    return buf;
}

int gethostname(char *buf, size_t len)
{
    if (v_sys.hostname_fails) { errno = EFAULT; return -1; }
    /* POSIX: truncated silently, termination unspecified when it does not fit */
    size_t i = 0;
    for (; i < len && v_sys.hostname[i] != '\0'; i++) buf[i] = v_sys.hostname[i];
    if (i < len) buf[i] = '\0';
    return 0;
}

int getlogin_r(char *buf, size_t len)
{
    if (v_sys.login_rc != 0) return v_sys.login_rc;
    if (strlen(v_sys.login) + 1 > len) return ERANGE;
    v_cpy(buf, len, v_sys.login);
    return 0;
}

extern char **environ;
char *getenv(const char *name)
{
    size_t nl = strlen(name);
    v_cpy(v_sys.getenv_name, sizeof v_sys.getenv_name, name);
    if (environ == NULL || nl == 0) return NULL;
    for (size_t i = 0; environ[i] != NULL; i++) {
        size_t k = 0;
        while (k < nl && environ[i][k] != '\0' && environ[i][k] == name[k]) k++;
        if (k == nl && environ[i][k] == '=') return environ[i] + nl + 1;
    }
    return NULL;
}

long sysconf(int name)
{
    (void)name;
    return (v_choice() & 1) ? -1 : 64;
}

int getpwuid_r(uid_t uid, struct passwd *pwd, char *buf, size_t buflen, struct passwd **result)
{
    v_sys.pw_uid_asked = uid; v_sys.n_getpw++;
    *result = NULL;
    if (v_sys.pw_rc != 0) return v_sys.pw_rc;               /* EIO, ENOMEM, ... */
    if (!v_sys.pw_found) return 0;                          /* no entry: result NULL, return 0 */
    if (strlen(v_sys.pw_name) + 1 > buflen) return ERANGE;
    v_cpy(buf, buflen, v_sys.pw_name);
    pwd->pw_name = buf; pwd->pw_uid = uid;
    *result = pwd;
    return 0;
}

int getgrgid_r(gid_t gid, struct group *grp, char *buf, size_t buflen, struct group **result)
{
    v_sys.gr_gid_asked = gid; v_sys.n_getgr++;
    *result = NULL;
    if (v_sys.gr_rc != 0) return v_sys.gr_rc;
    if (!v_sys.gr_found) return 0;
    if (strlen(v_sys.gr_name) + 1 > buflen) return ERANGE;
    v_cpy(buf, buflen, v_sys.gr_name);
    grp->gr_name = buf; grp->gr_gid = gid;
    *result = grp;
    return 0;
}

time_t time(time_t *t)
{
    if (v_sys.time_fails) { errno = EFAULT; return (time_t)-1; }
    if (t != NULL) *t = v_sys.now;
    return v_sys.now;
}

struct tm *localtime_r(const time_t *t, struct tm *res)
{
    v_sys.localtime_arg = *t;
    if (v_sys.localtime_fails) return NULL;
    memset(res, 0, sizeof *res);
    res->tm_sec = (int)(*t % 60);
    return res;
}

size_t strftime(char *buf, size_t max, const char *fmt, const struct tm *tm)
{
    (void)tm;
    v_cpy(v_sys.strftime_fmt, sizeof v_sys.strftime_fmt, fmt);
    size_t n = strlen(v_sys.strftime_out);
    if (v_sys.strftime_zero || n + 1 > max) return 0;
    v_cpy(buf, max, v_sys.strftime_out);
    return n;
}

int gettimeofday(struct timeval *tv, void *tz)
{
    (void)tz;
    v_sys.n_gettimeofday++;
    if (v_sys.gtod_fails) { errno = EFAULT; return -1; }
    tv->tv_sec = v_sys.tv_sec; tv->tv_usec = v_sys.tv_usec;
    return 0;
}

/* strerror_r (XSI): fills buf with some text */
static int v_strerror_r_impl(int e, char *buf, size_t len)
{
    (void)e;
    v_cpy(buf, len, "E?");
    return 0;
}
#ifdef VERIF_CBMC
int __xpg_strerror_r(int e, char *buf, size_t len) { return v_strerror_r_impl(e, buf, len); }
char *strerror(int e) { (void)e; return "E?"; }
#else
int strerror_r(int e, char *buf, size_t len) { return v_strerror_r_impl(e, buf, len); }   /* renamed to v_strerror_r_xsi by vlibc_native.h */
#endif

/* ---- forbidden process-level effects ------------------------------------ */
#ifdef VERIF_CBMC
#include <signal.h>
#define FORBID(msg) do { __CPROVER_assert(0, "FORBIDDEN process-level effect: " msg); __CPROVER_assume(0); } while (0)
#ifndef VL_EXIT_HOOK
void exit(int c)   { (void)c; FORBID("exit() called from the library"); }
#endif
void abort(void)   { FORBID("abort()"); }
void _exit(int c)  { (void)c; FORBID("_exit()"); }
int raise(int s)   { (void)s; FORBID("raise()"); return 0; }
int kill(pid_t p, int s) { (void)p; (void)s; FORBID("kill()"); return 0; }
int setenv(const char *n, const char *v, int o) { (void)n; (void)v; (void)o; FORBID("setenv()"); return 0; }
int putenv(char *s) { (void)s; FORBID("putenv()"); return 0; }
int unsetenv(const char *n) { (void)n; FORBID("unsetenv()"); return 0; }
int clearenv(void) { FORBID("clearenv()"); return 0; }
int chdir(const char *p) { (void)p; FORBID("chdir()"); return 0; }
mode_t umask(mode_t m) { (void)m; FORBID("umask()"); return 0; }
pid_t fork(void) { FORBID("fork()"); return 0; }
unsigned sleep(unsigned s) { (void)s; FORBID("sleep() (blocking)"); return 0; }
int usleep(useconds_t u) { (void)u; FORBID("usleep() (blocking)"); return 0; }
int sigaction(int s, const struct sigaction *a, struct sigaction *o) { (void)s; (void)a; (void)o; FORBID("sigaction()"); return 0; }
int sigprocmask(int h, const sigset_t *s, sigset_t *o) { (void)h; (void)s; (void)o; FORBID("sigprocmask()"); return 0; }
int pthread_sigmask(int h, const sigset_t *s, sigset_t *o) { (void)h; (void)s; (void)o; FORBID("pthread_sigmask()"); return 0; }
#endif

#ifdef VL_EXIT_HOOK
void v_on_exit(int code);          /* provided by the harness: assertions that must hold when the program exits */
void exit(int c)
{
    v_on_exit(c);
#ifdef VERIF_CBMC
    __CPROVER_assume(0);
#else
    _exit(0);
#endif
    while (1) { }
}
#endif
