/* vthread.h - sequential pthread model with owner/depth ghosts and an interference hook (DESIGN 2.2, C09/C10). */
#ifndef VTHREAD_H
#define VTHREAD_H
#include <pthread.h>
extern pthread_t v_self;                 /* identity of the thread under test */
extern int       v_mutex_depth;          /* recursion depth of THE library mutex as held by v_mutex_owner */
extern unsigned long v_mutex_owner;      /* kernel TID of the owner, 0 = free */
extern unsigned long v_tid;              /* kernel TID of the running thread (changes in a forked child) */
extern void (*v_atfork_prepare)(void), (*v_atfork_parent)(void), (*v_atfork_child)(void);
extern int v_atfork_calls, v_in_prepare;
extern int       v_mutex_initialised, v_mutex_recursive, v_once_done;
extern int       v_lock_calls, v_unlock_calls;
extern int       v_child_mode;           /* C10: we are the forked child: only v_self exists */
/* provided by the harness (may be empty): called at every first acquisition of the mutex, i.e. at a point where
 * other threads may have run since the thread under test last held it */
void v_interference(void);
#endif
