/* vnative_fallback.c - NATIVE replay builds only (compiled WITHOUT vlibc_native.h).
 * vlibc_native.h renames every call of a modelled function f to v_f, whether or not the query links the
 * model that defines v_f.  These weak definitions forward to the real libc function, so a query that does
 * not select a model file gets real libc behaviour for it; a linked model's strong definition wins. */
#define _GNU_SOURCE
#include <stdarg.h>
#include <stddef.h>
#include <stdio.h>
#include <stdlib.h>
#include <string.h>
#include <unistd.h>
#include <time.h>
#include <pwd.h>
#include <grp.h>
#include <dlfcn.h>
#include <pthread.h>
#include <fcntl.h>
#include <sched.h>
#include <sys/types.h>
#include <sys/stat.h>
#include <sys/time.h>
#include <sys/socket.h>
#include <sys/syscall.h>
#define W __attribute__((weak))
W char *v_strstr(const char *a, const char *b) { return strstr(a, b); }
W char *v_strcasestr(const char *a, const char *b) { return strcasestr(a, b); }
W size_t v_strnlen(const char *a, size_t n) { return strnlen(a, n); }
W char *v_strtok_r(char *a, const char *b, char **c) { return strtok_r(a, b, c); }
W char *v_strdup(const char *a) { return strdup(a); }
W char *v_strndup(const char *a, size_t n) { return strndup(a, n); }
W long v_atol(const char *a) { return atol(a); }
W int v_atoi(const char *a) { return atoi(a); }
W long long v_atoll(const char *a) { return atoll(a); }
W int v_vsnprintf(char *b, size_t n, const char *f, va_list ap) { return vsnprintf(b, n, f, ap); }
W int v_snprintf(char *b, size_t n, const char *f, ...) { va_list ap; int r; va_start(ap, f); r = vsnprintf(b, n, f, ap); va_end(ap); return r; }
W int v_sscanf(const char *s, const char *f, ...) { va_list ap; int r; va_start(ap, f); r = vsscanf(s, f, ap); va_end(ap); return r; }
W FILE *v_fopen(const char *p, const char *m) { return fopen(p, m); }
W int v_fclose(FILE *f) { return fclose(f); }
W int v_fflush(FILE *f) { return fflush(f); }
W int v_setvbuf(FILE *f, char *b, int m, size_t n) { return setvbuf(f, b, m, n); }
W int v_vfprintf(FILE *f, const char *fmt, va_list ap) { return vfprintf(f, fmt, ap); }
W int v_fprintf(FILE *f, const char *fmt, ...) { va_list ap; int r; va_start(ap, fmt); r = vfprintf(f, fmt, ap); va_end(ap); return r; }
W int v_printf(const char *fmt, ...) { va_list ap; int r; va_start(ap, fmt); r = vfprintf(stdout, fmt, ap); va_end(ap); return r; }
W size_t v_fread(void *b, size_t s, size_t n, FILE *f) { return fread(b, s, n, f); }
W int v_ferror(FILE *f) { return ferror(f); }
W int v_feof(FILE *f) { return feof(f); }
W void v_clearerr(FILE *f) { clearerr(f); }
W int v_fseek(FILE *f, long o, int w) { return fseek(f, o, w); }
W long v_ftell(FILE *f) { return ftell(f); }
W char *v_fgets(char *b, int n, FILE *f) { return fgets(b, n, f); }
W ssize_t v_getline(char **l, size_t *n, FILE *f) { return getline(l, n, f); }
W int v_socket(int d, int t, int p) { return socket(d, t, p); }
W int v_connect(int fd, const struct sockaddr *a, socklen_t l) { return connect(fd, a, l); }
W ssize_t v_send(int fd, const void *b, size_t n, int fl) { return send(fd, b, n, fl); }
W int v_close(int fd) { return close(fd); }
W int v_access(const char *p, int m) { return access(p, m); }
W uid_t v_getuid(void) { return getuid(); }
W uid_t v_geteuid(void) { return geteuid(); }
W gid_t v_getgid(void) { return getgid(); }
W gid_t v_getegid(void) { return getegid(); }
W pid_t v_getpid(void) { return getpid(); }
W pid_t v_getppid(void) { return getppid(); }
W pid_t v_getsid(pid_t p) { return getsid(p); }
W int v_ttyname_r(int fd, char *b, size_t n) { return ttyname_r(fd, b, n); }
W int v_stat(const char *p, struct stat *s) { return stat(p, s); }
W char *v_getcwd(char *b, size_t n) { return getcwd(b, n); }
W int v_gethostname(char *b, size_t n) { return gethostname(b, n); }
W int v_getlogin_r(char *b, size_t n) { return getlogin_r(b, n); }
W char *v_getenv(const char *n) { return getenv(n); }
W long v_sysconf(int n) { return sysconf(n); }
W int v_getpwuid_r(uid_t u, struct passwd *p, char *b, size_t n, struct passwd **r) { return getpwuid_r(u, p, b, n, r); }
W int v_getgrgid_r(gid_t g, struct group *p, char *b, size_t n, struct group **r) { return getgrgid_r(g, p, b, n, r); }
W time_t v_time(time_t *t) { return time(t); }
W struct tm *v_localtime_r(const time_t *t, struct tm *r) { return localtime_r(t, r); }
W size_t v_strftime(char *b, size_t n, const char *f, const struct tm *t) { return strftime(b, n, f, t); }
W int v_gettimeofday(struct timeval *tv, void *tz) { return gettimeofday(tv, tz); }
extern int __xpg_strerror_r(int, char *, size_t);
W int v_strerror_r_xsi(int e, char *b, size_t n) { return __xpg_strerror_r(e, b, n); }
W long v_syscall(long nr, ...) { return syscall(nr); }
W void *v_dlsym(void *h, const char *n) { return dlsym(h, n); }
W void v_exit(int c) { exit(c); }
W pthread_t v_pthread_self(void) { return pthread_self(); }
W int v_pthread_equal(pthread_t a, pthread_t b) { return pthread_equal(a, b); }
W int v_pthread_once(pthread_once_t *c, void (*f)(void)) { return pthread_once(c, f); }
W int v_pthread_mutexattr_init(pthread_mutexattr_t *a) { return pthread_mutexattr_init(a); }
W int v_pthread_mutexattr_settype(pthread_mutexattr_t *a, int t) { return pthread_mutexattr_settype(a, t); }
W int v_pthread_mutex_init(pthread_mutex_t *m, const pthread_mutexattr_t *a) { return pthread_mutex_init(m, a); }
W int v_pthread_mutex_lock(pthread_mutex_t *m) { return pthread_mutex_lock(m); }
W int v_pthread_mutex_unlock(pthread_mutex_t *m) { return pthread_mutex_unlock(m); }
W int v_pthread_atfork(void (*a)(void), void (*b)(void), void (*c)(void)) { return pthread_atfork(a, b, c); }
W size_t v_strspn(const char *a, const char *b) { return strspn(a, b); }
W size_t v_strcspn(const char *a, const char *b) { return strcspn(a, b); }
W char *v_strpbrk(const char *a, const char *b) { return strpbrk(a, b); }
W char *v_strsep(char **a, const char *b) { return strsep(a, b); }
W int v_fileno(FILE *f) { return fileno(f); }
W int v_ftruncate(int fd, off_t l) { return ftruncate(fd, l); }
W int v_fsync(int fd) { return fsync(fd); }
W int v_sched_yield(void) { return sched_yield(); }
W int v_open(const char *p, int fl, ...) { va_list ap; va_start(ap, fl); int m = va_arg(ap, int); va_end(ap); return open(p, fl, m); }
W ssize_t v_write(int fd, const void *b, size_t n) { return write(fd, b, n); }
W int v_fputs(const char *s, FILE *f) { return fputs(s, f); }
W int v_fputc(int c, FILE *f) { return fputc(c, f); }
W int v_puts(const char *s) { return puts(s); }
W size_t v_fwrite(const void *p, size_t a, size_t b, FILE *f) { return fwrite(p, a, b, f); }
W long v_strtol(const char *a, char **e, int b) { return strtol(a, e, b); }
W long long v_strtoll(const char *a, char **e, int b) { return strtoll(a, e, b); }
W unsigned long v_strtoul(const char *a, char **e, int b) { return strtoul(a, e, b); }
W unsigned long long v_strtoull(const char *a, char **e, int b) { return strtoull(a, e, b); }
W int v_rename(const char *a, const char *b) { return rename(a, b); }
W int v_unlink(const char *a) { return unlink(a); }
W int v_remove(const char *a) { return remove(a); }
