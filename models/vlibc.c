/* vlibc.c - environment models ("the trusted base"), DESIGN.md section 2.2.
 *
 * Each function is a direct transcription of its C/POSIX contract, written so
 * that CBMC can unwind it (simple byte loops, constant-capacity allocations).
 * Compiled two ways:
 *   - with goto-cc (VERIF_CBMC): the functions carry their real libc names and
 *     take precedence over CBMC's built-in library;
 *   - natively for counterexample replay: vlibc_native.h (forced include) maps
 *     every *call* of a modelled function `f(...)` to `v_f(...)` in the repo
 *     units, the harness and this file, so the replay exercises the same
 *     environment the solver saw while everything else is real glibc + ASan.
 *
 * Nondeterministic environment decisions come from v_choice() (see verif.h).
 *
 * Sections are selected with -DVL_<SECTION> by the query (keeps the goto
 * programs small); VL_ALL selects everything.
 */
#ifndef _GNU_SOURCE
#define _GNU_SOURCE
#endif
#include <stdarg.h>
#include <stddef.h>
#include <stdint.h>
#include <stdio.h>
#include <stdlib.h>
#include <string.h>
#include <limits.h>
#include <errno.h>
#include "verif.h"

#ifndef V_STR_CAP
#define V_STR_CAP 16          /* constant capacity of strdup/strndup/getline blocks (bound+1, asserted sufficient) */
#endif

int v_ch[V_NCH];
int v_ch_n;
int v_choice(void)
{
    if (v_ch_n >= V_NCH) return 0;
    return v_ch[v_ch_n++];
}

/* ---------------------------------------------------------------------- */
/* strings                                                                 */
/* ---------------------------------------------------------------------- */
char *strstr(const char *h, const char *n)
{
    size_t i, j;
    if (n[0] == '\0') return (char *)h;
    for (i = 0; h[i] != '\0'; i++) {
        for (j = 0; n[j] != '\0' && h[i + j] == n[j]; j++) { }
        if (n[j] == '\0') return (char *)(h + i);
        if (h[i + j] == '\0') return NULL;
    }
    return NULL;
}

static int v_lower(int c) { return (c >= 'A' && c <= 'Z') ? c + 32 : c; }

char *strcasestr(const char *h, const char *n)
{
    size_t i, j;
    if (n[0] == '\0') return (char *)h;
    for (i = 0; h[i] != '\0'; i++) {
        for (j = 0; n[j] != '\0' && v_lower((unsigned char)h[i + j]) == v_lower((unsigned char)n[j]); j++) { }
        if (n[j] == '\0') return (char *)(h + i);
        if (h[i + j] == '\0') return NULL;
    }
    return NULL;
}

size_t strnlen(const char *s, size_t max)
{
    size_t i = 0;
    while (i < max && s[i] != '\0') i++;
    return i;
}

static int v_in_set(char c, const char *set)
{
    for (size_t k = 0; set[k] != '\0'; k++) if (set[k] == c) return 1;
    return 0;
}

char *strtok_r(char *str, const char *delim, char **saveptr)
{
    char *s = (str != NULL) ? str : *saveptr;
    char *tok;
    if (s == NULL) return NULL;     /* glibc would crash on (NULL, , &NULL); callers here never do that */
    while (*s != '\0' && v_in_set(*s, delim)) s++;
    if (*s == '\0') { *saveptr = s; return NULL; }
    tok = s;
    while (*s != '\0' && !v_in_set(*s, delim)) s++;
    if (*s != '\0') { *s = '\0'; s++; }
    *saveptr = s;
    return tok;
}

/* strdup/strndup: constant-capacity block (symbolic-size heap objects make
 * CBMC's array theory explode - DESIGN 2.3).  The capacity check is an
 * assertion so that an input longer than the harness bound is loud. */
char *strdup(const char *s)
{
    size_t n = strlen(s);
    char *p;
    V_ASSERT(n + 1 <= V_STR_CAP, "MODEL strdup: string longer than harness capacity V_STR_CAP (raise the bound)");
#ifdef VERIF_CBMC
    p = malloc(V_STR_CAP);
    __CPROVER_assume(p != NULL);
#else
    p = malloc(n + 1);            /* native replay: exact size so ASan sees overruns */
#endif
    for (size_t i = 0; i <= n; i++) p[i] = s[i];
    return p;
}

char *strndup(const char *s, size_t max)
{
    size_t n = strnlen(s, max);
    char *p;
    V_ASSERT(n + 1 <= V_STR_CAP, "MODEL strndup: string longer than harness capacity V_STR_CAP (raise the bound)");
#ifdef VERIF_CBMC
    p = malloc(V_STR_CAP);
    __CPROVER_assume(p != NULL);
#else
    p = malloc(n + 1);
#endif
    for (size_t i = 0; i < n; i++) p[i] = s[i];
    p[n] = '\0';
    return p;
}

/* ---------------------------------------------------------------------- */
/* numbers                                                                 */
/* ---------------------------------------------------------------------- */
/* strtol-style decimal conversion, saturating at LONG_MIN/LONG_MAX (the glibc
 * behaviour of atol, which calls strtol).  Skips leading white space, optional
 * sign. */
long v_dec(const char *s)
{
    unsigned long acc = 0;
    int neg = 0, sat = 0;
    size_t i = 0;
    while (s[i] == ' ' || (s[i] >= '\t' && s[i] <= '\r')) i++;
    if (s[i] == '+' || s[i] == '-') { neg = (s[i] == '-'); i++; }
    for (; s[i] >= '0' && s[i] <= '9'; i++) {
        unsigned d = (unsigned)(s[i] - '0');
        if (acc > ULONG_MAX / 10 || (acc == ULONG_MAX / 10 && d > ULONG_MAX % 10)) { sat = 1; acc = ULONG_MAX; }
        else acc = acc * 10 + d;
    }
    if (neg) {
        if (sat || acc > (unsigned long)LONG_MAX + 1UL) return LONG_MIN;
        return (long)(0UL - acc);
    }
    if (sat || acc > (unsigned long)LONG_MAX) return LONG_MAX;
    return (long)acc;
}

/* strtol family, base 10 (or 0 without prefix): value as v_dec, *endptr after the last digit consumed */
static const char *v_num_end(const char *s)
{
    size_t i = 0;
    while (s[i] == ' ' || (s[i] >= '\t' && s[i] <= '\r')) i++;
    size_t j = i;
    if (s[j] == '+' || s[j] == '-') j++;
    if (!(s[j] >= '0' && s[j] <= '9')) return s;           /* no conversion */
    while (s[j] >= '0' && s[j] <= '9') j++;
    return s + j;
}
#ifndef VL_NO_ATOL
long atol(const char *s) { return v_dec(s); }
long strtol(const char *s, char **end, int base)
{
    V_ASSERT(base == 10 || (base == 0 && !(s[0] == '0' && s[1] != '\0')), "MODEL strtol: only base 10 is modelled");
    if (end != NULL) *end = (char *)v_num_end(s);
    return v_dec(s);
}
long long strtoll(const char *s, char **end, int base) { return (long long)strtol(s, end, base); }
unsigned long strtoul(const char *s, char **end, int base)
{
    V_ASSERT(base == 10 || (base == 0 && !(s[0] == '0' && s[1] != '\0')), "MODEL strtoul: only base 10 is modelled");
    if (end != NULL) *end = (char *)v_num_end(s);
    /* values up to LONG_MAX as strtol; larger ones (up to ULONG_MAX) are outside what the callers here use */
    return (unsigned long)v_dec(s);
}
unsigned long long strtoull(const char *s, char **end, int base) { return (unsigned long long)strtoul(s, end, base); }
#endif
#ifndef VL_NO_ATOL
long long atoll(const char *s) { return (long long)v_dec(s); }   /* LP64: long long == long */
int atoi(const char *s) { return (int)v_dec(s); }
#endif     /* glibc: (int) strtol(s, NULL, 10) */

/* ---------------------------------------------------------------------- */
/* formatted output                                                        */
/* ---------------------------------------------------------------------- */
struct v_sink { char *buf; size_t size; size_t n; };

static void v_put(struct v_sink *k, char c)
{
    if (k->buf != NULL && k->n + 1 < k->size) k->buf[k->n] = c;
    k->n++;
}

/* 32-bit values (every %d/%u of an int) are rendered with 32-bit arithmetic and at most 10 iterations:
 * 64-bit division is what makes decimal rendering solver-hard */
static void v_put_u32(struct v_sink *k, unsigned v, int width, int zero)
{
    char tmp[12];
    int n = 0;
    for (int it = 0; it < 10; it++) { tmp[n++] = (char)('0' + (int)(v % 10u)); v /= 10u; if (v == 0) break; }
    for (int p = n; p < width; p++) v_put(k, zero ? '0' : ' ');
    while (n > 0) v_put(k, tmp[--n]);
}

static void v_put_udec(struct v_sink *k, unsigned long long v, int width, int zero)
{
    if (v <= 0xFFFFFFFFULL) { v_put_u32(k, (unsigned)v, width, zero); return; }
    char tmp[24];
    int n = 0;
    do { tmp[n++] = (char)('0' + (int)(v % 10)); v /= 10; } while (v != 0);
    for (int p = n; p < width; p++) v_put(k, zero ? '0' : ' ');
    while (n > 0) v_put(k, tmp[--n]);
}

static void v_put_sdec(struct v_sink *k, long long v, int width, int zero)
{
    if (v < 0) {
        v_put(k, '-');
        v_put_udec(k, 0ULL - (unsigned long long)v, width > 0 ? width - 1 : 0, zero);
    } else {
        v_put_udec(k, (unsigned long long)v, width, zero);
    }
}

/* Conversions occurring in /repo: %s %d %i %u %ld %lu %zu %c %% %0Nd %.*s.
 * Anything else is a loud framework error, not silence. */
static int v_format(struct v_sink *k, const char *fmt, va_list ap)
{
    for (size_t i = 0; fmt[i] != '\0'; i++) {
        if (fmt[i] != '%') { v_put(k, fmt[i]); continue; }
        i++;
        int zero = 0, width = 0, prec = -1, lng = 0;
        if (fmt[i] == '0') { zero = 1; i++; }
        while (fmt[i] >= '0' && fmt[i] <= '9') { width = width * 10 + (fmt[i] - '0'); i++; }
        if (fmt[i] == '.') {
            i++;
            if (fmt[i] == '*') { prec = va_arg(ap, int); i++; }
            else { prec = 0; while (fmt[i] >= '0' && fmt[i] <= '9') { prec = prec * 10 + (fmt[i] - '0'); i++; } }
        }
        if (fmt[i] == 'l') { lng = 1; i++; if (fmt[i] == 'l') { lng = 2; i++; } }
        else if (fmt[i] == 'z') { lng = 3; i++; }
        switch (fmt[i]) {
        case '%': v_put(k, '%'); break;
        case 'c': v_put(k, (char)va_arg(ap, int)); break;
        case 's': {
            const char *s = va_arg(ap, const char *);
            if (s == NULL) s = "(null)";
            for (size_t j = 0; s[j] != '\0' && (prec < 0 || j < (size_t)prec); j++) v_put(k, s[j]);
            break;
        }
        case 'd': case 'i':
            if (lng == 0) {
                int iv = va_arg(ap, int);
                if (iv < 0) { v_put(k, '-'); v_put_u32(k, 0u - (unsigned)iv, width > 0 ? width - 1 : 0, zero); }
                else v_put_u32(k, (unsigned)iv, width, zero);
            }
            else if (lng == 1) v_put_sdec(k, va_arg(ap, long), width, zero);
            else v_put_sdec(k, va_arg(ap, long long), width, zero);
            break;
        case 'u':
            if (lng == 0) v_put_u32(k, va_arg(ap, unsigned), width, zero);
            else if (lng == 1) v_put_udec(k, va_arg(ap, unsigned long), width, zero);
            else if (lng == 3) v_put_udec(k, va_arg(ap, size_t), width, zero);
            else v_put_udec(k, va_arg(ap, unsigned long long), width, zero);
            break;
        default:
            V_ASSERT(0, "MODEL printf: conversion not modelled (framework error)");
            return -1;
        }
    }
    return (int)k->n;
}

/* sscanf: exactly the one format the repo uses, " %c %d" */
int sscanf(const char *str, const char *fmt, ...)
{
    va_list ap;
    V_ASSERT(strcmp(fmt, " %c %d") == 0, "MODEL sscanf: format not modelled (framework error)");
    size_t i = 0;
    int n = 0;
    va_start(ap, fmt);
    while (str[i] == ' ' || (str[i] >= '\t' && str[i] <= '\r')) i++;
    if (str[i] == '\0') { va_end(ap); return -1; }          /* EOF before the first conversion */
    char *pc = va_arg(ap, char *);
    *pc = str[i++]; n = 1;
    while (str[i] == ' ' || (str[i] >= '\t' && str[i] <= '\r')) i++;
    int *pd = va_arg(ap, int *);
    size_t j = i;
    if (str[j] == '+' || str[j] == '-') j++;
    if (str[j] >= '0' && str[j] <= '9') { *pd = (int)v_dec(str + i); n = 2; }
    else if (str[i] == '\0') { va_end(ap); return 1; }
    va_end(ap);
    return n;
}

int vsnprintf(char *buf, size_t size, const char *fmt, va_list ap)
{
    struct v_sink k = { buf, size, 0 };
    int r = v_format(&k, fmt, ap);
    if (buf != NULL && size > 0) buf[k.n < size ? k.n : size - 1] = '\0';
    return r;
}

int snprintf(char *buf, size_t size, const char *fmt, ...)
{
    va_list ap;
    int r;
    va_start(ap, fmt);
    r = vsnprintf(buf, size, fmt, ap);
    va_end(ap);
    return r;
}

/* ---------------------------------------------------------------------- */
/* constant-capacity malloc (opt-in, -DVL_MALLOC_CAP=n)                     */
/* ---------------------------------------------------------------------- */
/* Heap objects of symbolic size force CBMC's array theory and dominate the solver time (DESIGN 2.3).
 * Functional harnesses may therefore select this model: every block has the constant capacity
 * VL_MALLOC_CAP (asserted sufficient).  Overruns inside the slack are then NOT seen by this query -
 * the dedicated memory-safety queries of C02 use CBMC's exact malloc. */
#if defined(VL_MALLOC_CAP) && defined(VERIF_CBMC)
extern void *__CPROVER_memory_leak;
void *malloc(size_t n)
{
    V_ASSERT(n <= VL_MALLOC_CAP, "MODEL malloc: request larger than harness capacity VL_MALLOC_CAP (raise the bound)");
    void *p = __CPROVER_allocate(VL_MALLOC_CAP, 0);
    __CPROVER_bool record = __VERIFIER_nondet___CPROVER_bool();
    __CPROVER_memory_leak = record ? p : __CPROVER_memory_leak;
    return p;
}
#endif

/* memcpy as a byte loop (opt-in -DVL_MEMCPY_LOOP): CBMC's built-in model copies through its array theory,
 * which is what exhausts memory when the length is symbolic. */
#if defined(VL_MEMCPY_LOOP) && defined(VERIF_CBMC)
void *memcpy(void *dst, const void *src, size_t n)
{
    for (size_t i = 0; i < n; i++) ((char *)dst)[i] = ((const char *)src)[i];
    return dst;
}
#endif

/* ---- further <string.h> functions (no CBMC built-in body) --------------------------------------- */
size_t strspn(const char *s, const char *accept)
{
    size_t i = 0;
    while (s[i] != '\0' && v_in_set(s[i], accept)) i++;
    return i;
}
size_t strcspn(const char *s, const char *reject)
{
    size_t i = 0;
    while (s[i] != '\0' && !v_in_set(s[i], reject)) i++;
    return i;
}
char *strpbrk(const char *s, const char *accept)
{
    size_t i = strcspn(s, accept);
    return (s[i] != '\0') ? (char *)(s + i) : NULL;
}
char *strsep(char **stringp, const char *delim)
{
    char *s = *stringp;
    if (s == NULL) return NULL;
    size_t i = strcspn(s, delim);
    if (s[i] != '\0') { s[i] = '\0'; *stringp = s + i + 1; } else *stringp = NULL;
    return s;
}
