/* vfs.h - ghost state of the stdio / socket / system environment model (vfs.c). */
#ifndef VFS_H
#define VFS_H
#include <stddef.h>
#include <stdio.h>

#ifndef V_NFILES
#define V_NFILES 3            /* simultaneously open modelled streams */
#endif
#ifndef V_PATHCAP
#define V_PATHCAP 24          /* bytes of a path the model records (longer paths are recorded truncated) */
#endif
#ifndef V_WCAP
#define V_WCAP 40             /* bytes of one write record */
#endif
#ifndef V_NW
#define V_NW 4                /* write records kept */
#endif

/* destinations of a write record */
#define V_DEST_FILE   0
#define V_DEST_STDOUT 1
#define V_DEST_STDERR 2
#define V_DEST_SOCKET 3

/* a virtual file as the harness describes it to fopen() */
struct v_vfile {
    int         exists;       /* 0: fopen fails with ENOENT */
    const char *content;      /* bytes served to readers */
    size_t      len;
};
/* provided by the HARNESS: describe `path` (called for every fopen in a read mode that the model lets succeed) */
void v_fs_lookup(const char *path, struct v_vfile *out);

struct v_wrec {
    int    dest;              /* V_DEST_* */
    int    stream;            /* index of the modelled stream (files), -1 otherwise */
    char   data[V_WCAP];
    size_t len;               /* full length (may exceed V_WCAP: then only counted) */
    int    complete;          /* 0: the call reported failure / short */
};

struct v_stream {
    int    open;
    int    writable, readable, append, truncate;
    char   path[V_PATHCAP];
    char   mode[4];
    const char *content; size_t len, pos;
    int    err, eof;
    int    bufmode;           /* _IOFBF (default for files), _IOLBF, _IONBF */
    size_t pending;           /* bytes accepted by stdio but not yet handed to the OS */
    int    os_writes;         /* write() system calls issued on the descriptor */
    size_t os_bytes;
};

extern struct v_stream v_st[V_NFILES];
extern struct v_wrec   v_w[V_NW];
extern int    v_nw;                       /* number of write records (fprintf / send calls that carried data) */
extern int    v_fopen_calls, v_fopen_ok, v_fclose_calls;
extern int    v_fread_calls, v_fread_full, v_no_short_reads;
extern int    v_fd_flags;                 /* flags of the last open() */
extern int    v_open_streams;             /* currently open modelled streams */
extern char   v_last_path[V_PATHCAP];     /* path of the last fopen */
extern char   v_last_mode[4];
extern size_t v_stdout_pending;           /* bytes sitting in stdout's stdio buffer (stdout may be fully buffered) */
extern int    v_stdout_os_writes;
extern size_t v_stdio_bufsize;            /* capacity B of a stdio buffer (set by the harness; default 4096) */

/* sockets */
extern int    v_sock_calls, v_sock_open, v_sock_type, v_sock_domain;
extern int    v_connect_calls, v_send_calls, v_send_flags, v_close_calls;
extern char   v_sock_path[V_PATHCAP];
extern int    v_sock_addrlen;

/* forbidden process-level effects (any call is a failed property) are in vsys.c */

void v_fs_reset(void);
int  v_stream_index(FILE *fp);            /* -1 if not a modelled stream */
#endif
