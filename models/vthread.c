/* vthread.c - sequential model of the pthread calls used by tsrm.c.
 *
 * CBMC's own thread mode is unsound on this code ("pointer handling for concurrency is unsound"), so
 * schedules are encoded sequentially: the thread under test (v_self) runs the real code; every time it
 * acquires the mutex from depth 0 the harness-supplied v_interference() performs an arbitrary bounded
 * sequence of the effects other threads are permitted to have (rely/guarantee).  Owner and depth are
 * ghosts so that "every repository access happens under the lock" and "the lock is never inherited from
 * a vanished owner" (fork) can be asserted.
 */
#ifndef _GNU_SOURCE
#define _GNU_SOURCE
#endif
#include <pthread.h>
#include <errno.h>
#include "verif.h"
#include "vthread.h"

pthread_t v_self = 1;
unsigned long v_tid = 1;           /* kernel thread id of the running thread: what glibc records as owner of a recursive mutex.
                                      It CHANGES in a forked child (same pthread_t, new TID) */
void (*v_atfork_prepare)(void), (*v_atfork_parent)(void), (*v_atfork_child)(void);
int   v_atfork_calls, v_in_prepare;
int       v_mutex_depth;
unsigned long v_mutex_owner;
int       v_mutex_initialised, v_mutex_recursive, v_once_done;
int       v_lock_calls, v_unlock_calls;
int       v_child_mode;

#ifdef VL_BOUNDARY_HOOK
void v_boundary(void);            /* harness: a point at which the thread under test can be stopped (C10 fork points) */
#define V_BOUNDARY() v_boundary()
#else
#define V_BOUNDARY() do { } while (0)
#endif

pthread_t pthread_self(void) { return v_self; }
int pthread_equal(pthread_t a, pthread_t b) { return a == b; }

/* pthread_once: 0 = not started, 1 = in progress, 2 = done.  glibc tags an in-progress initialisation with the fork
 * generation: a child forked while ANOTHER thread was inside the init routine finds it "in progress by a previous
 * generation" and runs the routine itself (it never waits for the vanished thread). */
static int v_once_state;
int pthread_once(pthread_once_t *c, void (*fn)(void))
{
    (void)c;
    if (v_once_state == 2) return 0;
    if (v_once_state == 1 && !v_child_mode) return 0;      /* re-entrant use by the initialising thread itself is not modelled */
    v_once_state = 1; v_once_done = 1;
    fn();
    v_once_state = 2;
    return 0;
}

/* at most one registration is modelled (the library registers once, from its pthread_once routine) */
int pthread_atfork(void (*prepare)(void), void (*parent)(void), void (*child)(void))
{
    v_atfork_calls++;
    v_atfork_prepare = prepare; v_atfork_parent = parent; v_atfork_child = child;
    return 0;
}

int pthread_mutexattr_init(pthread_mutexattr_t *a) { (void)a; V_BOUNDARY(); return 0; }
int pthread_mutexattr_settype(pthread_mutexattr_t *a, int t) { (void)a; V_BOUNDARY(); v_mutex_recursive = (t == PTHREAD_MUTEX_RECURSIVE); return 0; }

/* waiting for another thread (hand-rolled spin / yield loops): in a live process the others make progress; in a forked
 * child there is nobody to wait for */
int sched_yield(void)
{
    V_ASSERT(!v_child_mode, "C10: forked child waits (spins/yields) for a thread that does not exist in the child");
#ifdef VERIF_CBMC
    __CPROVER_assume(!v_child_mode);
#endif
    return 0;
}

int pthread_mutex_init(pthread_mutex_t *m, const pthread_mutexattr_t *a)
{
    (void)m; (void)a;
    V_BOUNDARY();
    v_mutex_initialised = 1; v_mutex_owner = 0; v_mutex_depth = 0;
    return 0;
}

int pthread_mutex_lock(pthread_mutex_t *m)
{
    (void)m;
    V_BOUNDARY();                      /* stopped just before taking the lock */
    v_lock_calls++;
    V_ASSERT(v_mutex_initialised, "C09: mutex used before initialisation");
    if (v_mutex_owner != 0 && v_mutex_owner != v_tid) {
#ifdef VERIF_CBMC
        /* a prepare handler that has to wait for the lock only delays the fork: the same schedule with a later fork point */
        if (v_in_prepare) __CPROVER_assume(0);
#endif
        /* owned by another thread: in a live process it will be released (progress assumption on the others);
         * in a forked child the owner does not exist => the caller blocks forever */
        V_ASSERT(!v_child_mode, "C10: forked child blocks forever on a lock inherited from a thread that does not exist in the child");
        v_mutex_owner = 0; v_mutex_depth = 0;     /* the other thread leaves its critical section */
    }
    if (v_mutex_owner == v_tid) {
        V_ASSERT(v_mutex_recursive, "C09: relock of a non-recursive mutex by its owner (self-deadlock)");
        v_mutex_depth++;
        return 0;
    }
    v_interference();                 /* others may have run since we last held the lock */
    v_mutex_owner = v_tid; v_mutex_depth = 1;
    V_BOUNDARY();                      /* stopped inside the critical section */
    return 0;
}

int pthread_mutex_unlock(pthread_mutex_t *m)
{
    (void)m;
    V_BOUNDARY();                      /* stopped inside the critical section, about to leave it */
    v_unlock_calls++;
    if (v_child_mode && v_mutex_owner != v_tid) return EPERM;      /* glibc: recursive/errorcheck mutex owned by another TID (e.g. the pre-fork TID) */
    V_ASSERT(v_mutex_owner == v_tid && v_mutex_depth > 0, "C09: unlock of a mutex the caller does not hold");
    if (v_mutex_owner == v_tid && v_mutex_depth > 0) { v_mutex_depth--; if (v_mutex_depth == 0) v_mutex_owner = 0; }
    return 0;
}
