/* stdio / sockets (vfs.c) */
FILE *v_fopen(const char *, const char *);
int v_fclose(FILE *);
int v_fflush(FILE *);
int v_setvbuf(FILE *, char *, int, size_t);
int v_vfprintf(FILE *, const char *, va_list);
int v_fprintf(FILE *, const char *, ...);
int v_printf(const char *, ...);
size_t v_fread(void *, size_t, size_t, FILE *);
int v_ferror(FILE *);
int v_feof(FILE *);
void v_clearerr(FILE *);
int v_fseek(FILE *, long, int);
long v_ftell(FILE *);
char *v_fgets(char *, int, FILE *);
ssize_t v_getline(char **, size_t *, FILE *);
int v_socket(int, int, int);
int v_connect(int, const struct sockaddr *, socklen_t);
ssize_t v_send(int, const void *, size_t, int);
int v_close(int);
int v_access(const char *, int);
int v_open(const char *, int, ...);
ssize_t v_write(int, const void *, size_t);
int v_fputs(const char *, FILE *);
int v_fputc(int, FILE *);
int v_puts(const char *);
size_t v_fwrite(const void *, size_t, size_t, FILE *);
int v_fileno(FILE *);
int v_ftruncate(int, off_t);
int v_fsync(int);
int v_rename(const char *, const char *);
int v_unlink(const char *);
int v_remove(const char *);
#ifdef feof
#undef feof
#endif
#ifdef ferror
#undef ferror
#endif
#define fopen(...)    v_fopen(__VA_ARGS__)
#define fclose(...)   v_fclose(__VA_ARGS__)
#define fflush(...)   v_fflush(__VA_ARGS__)
#define setvbuf(...)  v_setvbuf(__VA_ARGS__)
#define vfprintf(...) v_vfprintf(__VA_ARGS__)
#define fprintf(...)  v_fprintf(__VA_ARGS__)
#define printf(...)   v_printf(__VA_ARGS__)
#define fread(...)    v_fread(__VA_ARGS__)
#define ferror(...)   v_ferror(__VA_ARGS__)
#define feof(...)     v_feof(__VA_ARGS__)
#define clearerr(...) v_clearerr(__VA_ARGS__)
#define fseek(...)    v_fseek(__VA_ARGS__)
#define ftell(...)    v_ftell(__VA_ARGS__)
#define fgets(...)    v_fgets(__VA_ARGS__)
#define getline(...)  v_getline(__VA_ARGS__)
#define socket(...)   v_socket(__VA_ARGS__)
#define connect(...)  v_connect(__VA_ARGS__)
#define send(...)     v_send(__VA_ARGS__)
#define close(...)    v_close(__VA_ARGS__)
#define access(...)   v_access(__VA_ARGS__)
#define open(...)     v_open(__VA_ARGS__)
#define write(...)    v_write(__VA_ARGS__)
#ifdef fputc
#undef fputc
#endif
#define fputs(...)    v_fputs(__VA_ARGS__)
#define fputc(...)    v_fputc(__VA_ARGS__)
#define puts(...)     v_puts(__VA_ARGS__)
#define fwrite(...)   v_fwrite(__VA_ARGS__)
#ifdef fileno
#undef fileno
#endif
#define fileno(...)   v_fileno(__VA_ARGS__)
#define ftruncate(...) v_ftruncate(__VA_ARGS__)
#define fsync(...)    v_fsync(__VA_ARGS__)
#define rename(...)   v_rename(__VA_ARGS__)
#define unlink(...)   v_unlink(__VA_ARGS__)
#define remove(...)   v_remove(__VA_ARGS__)

/* identity / system (vsys.c) */
uid_t v_getuid(void); uid_t v_geteuid(void); gid_t v_getgid(void); gid_t v_getegid(void);
pid_t v_getpid(void); pid_t v_getppid(void); pid_t v_getsid(pid_t);
int v_ttyname_r(int, char *, size_t);
int v_stat(const char *, struct stat *);
char *v_getcwd(char *, size_t);
int v_gethostname(char *, size_t);
int v_getlogin_r(char *, size_t);
char *v_getenv(const char *);
long v_sysconf(int);
int v_getpwuid_r(uid_t, struct passwd *, char *, size_t, struct passwd **);
int v_getgrgid_r(gid_t, struct group *, char *, size_t, struct group **);
time_t v_time(time_t *);
struct tm *v_localtime_r(const time_t *, struct tm *);
size_t v_strftime(char *, size_t, const char *, const struct tm *);
int v_gettimeofday(struct timeval *, void *);
int v_strerror_r_xsi(int, char *, size_t);
long v_syscall(long, ...);
void *v_dlsym(void *, const char *);
void v_exit(int);
#define getuid(...)    v_getuid(__VA_ARGS__)
#define geteuid(...)   v_geteuid(__VA_ARGS__)
#define getgid(...)    v_getgid(__VA_ARGS__)
#define getegid(...)   v_getegid(__VA_ARGS__)
#define getpid(...)    v_getpid(__VA_ARGS__)
#define getppid(...)   v_getppid(__VA_ARGS__)
#define getsid(...)    v_getsid(__VA_ARGS__)
#define ttyname_r(...) v_ttyname_r(__VA_ARGS__)
#define stat(...)      v_stat(__VA_ARGS__)
#define getcwd(...)    v_getcwd(__VA_ARGS__)
#define gethostname(...) v_gethostname(__VA_ARGS__)
#define getlogin_r(...) v_getlogin_r(__VA_ARGS__)
#define getenv(...)    v_getenv(__VA_ARGS__)
#define sysconf(...)   v_sysconf(__VA_ARGS__)
#define getpwuid_r(...) v_getpwuid_r(__VA_ARGS__)
#define getgrgid_r(...) v_getgrgid_r(__VA_ARGS__)
#define time(...)      v_time(__VA_ARGS__)
#define localtime_r(...) v_localtime_r(__VA_ARGS__)
#define strftime(...)  v_strftime(__VA_ARGS__)
#define gettimeofday(...) v_gettimeofday(__VA_ARGS__)
#define strerror_r(...) v_strerror_r_xsi(__VA_ARGS__)
#define syscall(...)   v_syscall(__VA_ARGS__)
#define dlsym(...)     v_dlsym(__VA_ARGS__)
#define exit(...)      v_exit(__VA_ARGS__)

/* pthread (vthread.c) */
pthread_t v_pthread_self(void);
int v_pthread_equal(pthread_t, pthread_t);
int v_pthread_once(pthread_once_t *, void (*)(void));
int v_pthread_mutexattr_init(pthread_mutexattr_t *);
int v_pthread_mutexattr_settype(pthread_mutexattr_t *, int);
int v_pthread_mutex_init(pthread_mutex_t *, const pthread_mutexattr_t *);
int v_pthread_mutex_lock(pthread_mutex_t *);
int v_pthread_mutex_unlock(pthread_mutex_t *);
int v_sched_yield(void);
int v_pthread_atfork(void (*)(void), void (*)(void), void (*)(void));
#define pthread_self(...)              v_pthread_self(__VA_ARGS__)
#define pthread_equal(...)             v_pthread_equal(__VA_ARGS__)
#define pthread_once(...)              v_pthread_once(__VA_ARGS__)
#define pthread_mutexattr_init(...)    v_pthread_mutexattr_init(__VA_ARGS__)
#define pthread_mutexattr_settype(...) v_pthread_mutexattr_settype(__VA_ARGS__)
#define pthread_mutex_init(...)        v_pthread_mutex_init(__VA_ARGS__)
#define pthread_mutex_lock(...)        v_pthread_mutex_lock(__VA_ARGS__)
#define pthread_mutex_unlock(...)      v_pthread_mutex_unlock(__VA_ARGS__)
#define pthread_atfork(...)            v_pthread_atfork(__VA_ARGS__)
#define sched_yield(...)               v_sched_yield(__VA_ARGS__)
