/* vsys.h - ghost record of the process state served by the system model (vsys.c). */
#ifndef VSYS_H
#define VSYS_H
#include <sys/types.h>
#include <time.h>

#define V_NAMECAP 8
struct v_sys_t {
    /* identity: pairwise independent symbols */
    uid_t uid, euid; gid_t gid, egid; pid_t pid, ppid, sid, tid;
    int   sid_fails; pid_t getsid_arg; long syscall_nr;
    int   n_getuid, n_geteuid, n_getgid, n_getegid, n_ttyname, n_getpw, n_getgr, n_gettimeofday;
    /* terminal */
    int   tty_rc; char tty[V_NAMECAP]; int ttyname_fd; uid_t tty_uid; char stat_path[V_NAMECAP + 4];
    /* names */
    int   pw_rc, pw_found; char pw_name[V_NAMECAP]; uid_t pw_uid_asked;
    int   gr_rc, gr_found; char gr_name[V_NAMECAP]; gid_t gr_gid_asked;
    /* cwd / host / login */
    int   cwd_fails; char cwd[V_NAMECAP];
    int   hostname_fails; char hostname[V_NAMECAP];
    int   login_rc; char login[V_NAMECAP];
    char  getenv_name[V_NAMECAP + 8];
    /* time */
    int   time_fails, localtime_fails, strftime_zero, gtod_fails;
    time_t now, localtime_arg; long tv_sec, tv_usec;
    char  strftime_fmt[24]; char strftime_out[V_NAMECAP];
};
extern struct v_sys_t v_sys;
#endif
