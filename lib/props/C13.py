"""C13 - registered names bind to their own implementation in every build.

Deciding step: an SMT encoding (Z3, cross-checked with cvc5) generated on every run from the preprocessor
guard structure of the three real registry sources: one Boolean per enable switch, the index of an array
entry = number of enabled entries before it; the negated property is asserted for all 2^N switch
assignments at once.  The extractor is validated against the real preprocessor (gcc -E under generated
config.h files) and the result cross-checked by CBMC on concrete configurations.
"""
import os, random, re, subprocess, tempfile, time
from runner import Q, Unit, REPO, VERIF, FrameworkError

ENGINE = "z3+cbmc"
TECHNIQUE = "SMT (Z3, cvc5) over the #ifdef guard structure of the real registries for all 2^N builds at once; extractor validated against gcc -E; CBMC cross-check of the real registry code on concrete builds"
LEVEL_TEXT = ("For all 2^N combinations of the enable switches (data sources incl. the thread-safety gate, filters, outputs) at once: the SMT "
              "solver shows that no assignment puts an enabled name at an index whose enabled pointer is not its own implementation, and "
              "that names and pointers have matching lengths. The real lookup code (genericregistry.c + registry call-by-name) is then "
              "model-checked with CBMC on concrete configurations with identity stubs.")
LEVEL_NOTE = ("Trusted: Z3/cvc5, the guard extractor (validated each run against gcc -E on all-on, all-off, every single-switch-off and seeded "
              "random configurations), the naming convention name X <-> snoopy_datasource_X / snoopy_filter_X / snoopy_output_Xoutput. "
              "That the function of that name implements what the name documents is C12 / C04.")
ASSUMPTIONS = [
    "switch macros are independent Booleans (configure.ac may forbid some combinations: the claim is for the superset)",
    "implementation of name X is the function conventionally named after it",
    "object files for enabled features are linked (Makefile conditionals are outside the encoding)",
]

REGS = [
    ("datasource", "src/datasourceregistry.c", "snoopy_datasourceregistry_names", "snoopy_datasourceregistry_ptrs", lambda n: "snoopy_datasource_" + n),
    ("filter", "src/filterregistry.c", "snoopy_filterregistry_names", "snoopy_filterregistry_ptrs", lambda n: "snoopy_filter_" + n),
    ("output", "src/outputregistry.c", "snoopy_outputregistry_names", "snoopy_outputregistry_ptrs", lambda n: "snoopy_output_" + n + "output"),
]


def strip_comments(txt):
    txt = re.sub(r"/\*.*?\*/", lambda m: "\n" * m.group(0).count("\n"), txt, flags=re.S)
    return re.sub(r"//[^\n]*", "", txt)


def extract(path, names_sym, ptrs_sym):
    """-> (names[(guards, token)], ptrs[(guards, token)]) ; guards = tuple of (macro, polarity)."""
    txt = strip_comments(open(os.path.join(REPO, path)).read())
    lines = txt.split("\n")
    stack, out, cur = [], {"names": [], "ptrs": []}, None
    for ln in lines:
        s = ln.strip()
        m = re.match(r"#\s*(ifdef|ifndef|if|else|elif|endif)\b\s*(.*)", s)
        if m:
            d, arg = m.group(1), m.group(2).strip()
            if d == "ifdef":
                stack.append((arg, True))
            elif d == "ifndef":
                stack.append((arg, False))
            elif d == "if":
                mm = re.match(r"defined\s*\(?\s*(\w+)\s*\)?$", arg)
                if not mm:
                    if cur:
                        raise FrameworkError("unsupported #if inside registry array: " + s)
                    stack.append(("__opaque__" + arg, True))
                else:
                    stack.append((mm.group(1), True))
            elif d == "else":
                a, p = stack.pop()
                stack.append((a, not p))
            elif d == "elif":
                raise FrameworkError("unsupported #elif in " + path)
            elif d == "endif":
                stack.pop()
            continue
        if cur is None:
            if re.search(r"\b%s\s*\[\s*\]\s*=\s*\{" % re.escape(names_sym), s):
                cur = "names"
                continue
            if re.search(r"\b%s\s*\[\s*\]\s*\)?\s*\(.*=\s*\{" % re.escape(ptrs_sym), s) or re.search(r"\(\*\s*%s\s*\[\s*\]\s*\)" % re.escape(ptrs_sym), s):
                cur = "ptrs"
                continue
            continue
        if s.startswith("};"):
            cur = None
            continue
        for tok in [t.strip() for t in s.split(",") if t.strip()]:
            if cur == "names":
                mm = re.match(r'"([^"]*)"$', tok)
                if not mm:
                    raise FrameworkError("unexpected token in names array of %s: %r" % (path, tok))
                out["names"].append((tuple(stack), mm.group(1)))
            else:
                if not re.match(r"&?\w+$", tok):
                    raise FrameworkError("unexpected token in pointer array of %s: %r" % (path, tok))
                out["ptrs"].append((tuple(stack), tok.lstrip("&")))
    if not out["names"] or not out["ptrs"]:
        raise FrameworkError("could not find registry arrays in " + path)
    return out["names"], out["ptrs"]


def guard_smt(g):
    if not g:
        return "true"
    parts = [("%s" if pol else "(not %s)") % m for m, pol in g]
    return "(and %s)" % " ".join(parts) if len(parts) > 1 else parts[0]


def encode(reg, names, ptrs, fn_of):
    macros = sorted({m for g, _ in names + ptrs for m, _ in g})
    L = ["(set-logic QF_LIA)"] + ["(declare-const %s Bool)" % m for m in macros]

    def pos(entries, i):
        terms = ["(ite %s 1 0)" % guard_smt(entries[j][0]) for j in range(i)]
        return "(+ 0 %s)" % " ".join(terms) if terms else "0"
    viol = []
    for i, (g, nm) in enumerate(names):
        if nm == "":
            # terminator: its index must equal the number of enabled pointers
            total_p = "(+ 0 %s)" % " ".join("(ite %s 1 0)" % guard_smt(pg) for pg, _ in ptrs)
            viol.append("(and %s (not (= %s %s)))" % (guard_smt(g), pos(names, i), total_p))
            continue
        want = fn_of(nm)
        alts = ["(and %s (= %s %s))" % (guard_smt(pg), pos(ptrs, j), pos(names, i)) for j, (pg, tok) in enumerate(ptrs) if tok == want]
        ok = "(or %s)" % " ".join(alts) if len(alts) > 1 else (alts[0] if alts else "false")
        viol.append("(and %s (not %s))" % (guard_smt(g), ok))
    # the terminator must exist unconditionally
    if not any(nm == "" and not g for g, nm in names):
        viol.append("true")
    L.append("(assert (or %s))" % " ".join(viol))
    L.append("(check-sat)")
    L.append("(get-model)")
    return "\n".join(L) + "\n", macros


def run_solver(cmd, smt):
    t0 = time.time()
    r = subprocess.run(cmd, input=smt, capture_output=True, text=True, timeout=300)
    out = r.stdout + r.stderr
    if "(error" in out and "unsat" not in out.split("\n")[0]:
        return "error", out, time.time() - t0
    first = out.strip().split("\n")[0].strip() if out.strip() else "error"
    if first == "unsat" and "(error" in out:
        # (get-model) after unsat yields an error line: that one is expected
        errs = [l for l in out.split("\n") if "(error" in l and "model is not available" not in l and "cannot get" not in l.lower() and "get-model" not in l.lower() and "unsat" not in l.lower()]
        if errs:
            return "error", out, time.time() - t0
    return first, out, time.time() - t0


def predicted(entries, on):
    return [tok for g, tok in entries if all((m in on) == pol for m, pol in g)]


def real_tokens(path, sym, cfgdir, kind):
    r = subprocess.run(["gcc", "-E", "-P", "-std=c99", "-I" + cfgdir, "-I" + os.path.join(REPO, "src"), "-I" + REPO, os.path.join(REPO, path)],
                       capture_output=True, text=True)
    if r.returncode != 0:
        raise FrameworkError("gcc -E failed on %s: %s" % (path, r.stderr[-800:]))
    m = re.search(re.escape(sym) + r"\s*\[\s*\]\s*\)?[^=]*=\s*\{(.*?)\};", r.stdout, flags=re.S)
    if not m:
        raise FrameworkError("array %s not found in preprocessed %s" % (sym, path))
    toks = [t.strip() for t in m.group(1).split(",") if t.strip()]
    return [t.strip('"') if kind == "names" else t.lstrip("&") for t in toks]


def make_config(base, macros_all, on):
    txt = base
    for m in macros_all:
        txt = re.sub(r"^#define %s\b.*$" % re.escape(m), "/* #undef %s */" % m, txt, flags=re.M)
    txt += "\n" + "".join("#define %s 1\n" % m for m in sorted(on))
    return txt


def pre(ctx):
    build, log, seed = ctx["build"], ctx["log"], ctx["seed"]
    cov = {"smt_queries": [], "preprocessor_validations": 0}
    violations = []
    allm = set()
    regs = []
    for reg, path, nsym, psym, fn_of in REGS:
        names, ptrs = extract(path, nsym, psym)
        smt, macros = encode(reg, names, ptrs, fn_of)
        allm |= set(macros)
        regs.append((reg, path, nsym, psym, fn_of, names, ptrs, macros))
        res = {}
        for sname, cmd in (("z3", ["z3", "-in"]), ("cvc5", ["cvc5", "--lang=smt2", "--produce-models"])):
            verdict, out, dt = run_solver(cmd, smt)
            res[sname] = (verdict, out, dt)
        z, c = res["z3"][0], res["cvc5"][0]
        log("  [smt] %-10s names=%d ptrs=%d switches=%d (2^%d builds)  z3=%s (%.2fs)  cvc5=%s (%.2fs)" % (reg, len(names), len(ptrs), len(macros), len(macros), z, res["z3"][2], c, res["cvc5"][2]))
        cov["smt_queries"].append({"registry": reg, "source": path, "name_entries": len(names), "pointer_entries": len(ptrs), "switches": macros,
                                   "builds_covered": "2^%d" % len(macros), "z3": z, "cvc5": c, "z3_s": round(res["z3"][2], 3), "cvc5_s": round(res["cvc5"][2], 3)})
        if z not in ("sat", "unsat") or c not in ("sat", "unsat"):
            return {"error": "SMT solver gave no verdict for %s: z3=%r cvc5=%r\n%s" % (reg, z, c, (res["z3"][1] + res["cvc5"][1])[-800:])}
        if z != c:
            return {"error": "z3 and cvc5 disagree on %s (%s vs %s): encoding not believed" % (reg, z, c)}
        if z == "sat":
            on = set(re.findall(r"\(define-fun (\w+) \(\) Bool\s+true\)", res["z3"][1]))
            violations.append((reg, path, nsym, psym, fn_of, on & set(macros), macros))
    # ---- validate the extractor against the real preprocessor ----------------
    rnd = random.Random(seed)
    allm = sorted(allm)
    configs = [set(allm), set()] + [set(allm) - {m} for m in allm] + [set(m for m in allm if rnd.random() < 0.5) for _ in range(6)]
    base = build.base_config
    tmp = os.path.join(ctx["scratch"], "c13cfg")
    os.makedirs(tmp, exist_ok=True)
    for k, on in enumerate(configs):
        open(os.path.join(tmp, "config.h"), "w").write(make_config(base, allm, on))
        for reg, path, nsym, psym, fn_of, names, ptrs, macros in regs:
            rn, rp = real_tokens(path, nsym, tmp, "names"), real_tokens(path, psym, tmp, "ptrs")
            if rn != predicted(names, on) or rp != predicted(ptrs, on):
                return {"error": "guard extractor disagrees with gcc -E on %s for configuration #%d: %s vs %s" % (path, k, rn, predicted(names, on))}
            cov["preprocessor_validations"] += 1
    log("  [smt] extractor validated against gcc -E on %d configurations x 3 registries" % len(configs))
    # ---- replay of a sat model: the real preprocessor output under that configuration ------
    out_v = []
    for reg, path, nsym, psym, fn_of, on, macros in violations:
        open(os.path.join(tmp, "config.h"), "w").write(make_config(base, allm, on))
        rn, rp = real_tokens(path, nsym, tmp, "names"), real_tokens(path, psym, tmp, "ptrs")
        bad = [(i, n, rp[i] if i < len(rp) else None) for i, n in enumerate(rn) if n != "" and (i >= len(rp) or rp[i] != fn_of(n))]
        if rn and rn[-1] == "" and len(rn) - 1 != len(rp):
            bad.append((len(rn) - 1, "<terminator>", "pointer array has %d entries" % len(rp)))
        rdir = os.path.join(VERIF, "replays", "C13_%s_%s" % (reg, time.strftime("%Y%m%d-%H%M%S")))
        os.makedirs(rdir, exist_ok=True)
        open(os.path.join(rdir, "config.h"), "w").write(make_config(base, allm, on))
        open(os.path.join(rdir, "report.txt"), "w").write(
            "registry %s (%s)\nswitches ON: %s\nnames after gcc -E: %s\npointers after gcc -E: %s\nmisbound (index, name, pointer): %s\n"
            "reproduce: gcc -E -P -std=c99 -I%s -I/repo/src -I/repo /repo/%s\n" % (reg, path, sorted(on), rn, rp, bad, rdir, path))
        if bad:
            out_v.append({"path": rdir, "how": "build with switches %s: name %r is bound to %r" % (sorted(on)[:6], bad[0][1], bad[0][2])})
        else:
            return {"error": "SMT model for %s does not reproduce under the real preprocessor (encoding error)" % reg}
    cov["switch_macros"] = allm
    cov["configurations_preprocessed"] = len(configs)
    return {"coverage": cov, "violations": out_v}


def queries(ctx):
    """CBMC cross-check of the real lookup code on concrete builds (identity stubs)."""
    build, seed = ctx["build"], ctx["seed"]
    rnd = random.Random(seed + 1)
    allm = set()
    for reg, path, nsym, psym, fn_of in REGS:
        n, p = extract(path, nsym, psym)
        allm |= {m for g, _ in n + p for m, _ in g}
    allm = sorted(allm)
    lists = {}
    for reg, path, nsym, psym, fn_of in REGS:
        n, p = extract(path, nsym, psym)
        lists[reg] = [nm for g, nm in n if nm != ""]
    gen = "".join("#define %s_LIST %s\n" % (k, " ".join("X(%s)" % x for x in lists[r])) for k, r in (("DS", "datasource"), ("FI", "filter"), ("OU", "output")))
    cfgs = [("allon", set(allm)), ("alloff", set())]
    for k in range(2 if ctx["tier"] == "quick" else 8):
        cfgs.append(("rnd%d" % k, set(m for m in allm if rnd.random() < 0.5)))
    # builds in which a name that is a proper prefix of another registered name is switched off (e.g. tty off, tty_uid on)
    import itertools
    macro_of = {}
    for reg, path, nsym, psym, fn_of in REGS:
        n, p = extract(path, nsym, psym)
        for g, nm in n:
            if nm and g:
                macro_of[(reg, nm)] = g[-1][0]
    fam = sorted({macro_of[(reg, a)] for reg in lists for a in lists[reg] for b in lists[reg] if a != b and b.startswith(a) and (reg, a) in macro_of})
    for m in (fam if ctx["tier"] == "thorough" else fam[:6]):
        cfgs.append(("off_" + m.split("_ENABLED_")[-1], set(allm) - {m}))
    qs = []
    for cname, on in cfgs:
        key = "C13_" + cname
        d = build.add_variant(key, make_config(build.base_config, allm, on))
        open(os.path.join(d, "c13_gen.h"), "w").write(gen)
        qs.append(Q(name="lookup_" + cname, harness="C13_registry.c", variant=key,
                    units=["src/datasourceregistry.c", "src/filterregistry.c", "src/outputregistry.c", "src/genericregistry.c"],
                    models=(), unwind=45, unwindset=("strcmp.0:30",), timeout=600, mem_gb=6, flags=("--object-bits", "10"),
                    bounds="concrete build '%s' (%d of %d switches on): for every index i below the registry's count, calling by the i-th name reaches the implementation conventionally named after it" % (cname, len(on), len(allm))))
        qs.append(Q(name="anyname_" + cname, harness="C13_registry.c", func="harness_anyname", variant=key,
                    units=["src/datasourceregistry.c", "src/filterregistry.c", "src/outputregistry.c", "src/genericregistry.c"],
                    models=(), unwind=47, unwindset=("strcmp.0:30",), timeout=600, mem_gb=6, flags=("--object-bits", "10"),
                    bounds="concrete build '%s': for every name of ANY build (and an unknown one): it exists iff it is in this build's names array; switched-off names run nothing" % cname))
    return qs
