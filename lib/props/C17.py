"""C17 - file records are appended whole; concurrent writers never interleave."""
from runner import Q, Unit
import outputs_common as oc

LEVEL_TEXT = ("Bounded model checking of the real file-type outputs over the stdio model: decided per record by the system calls used - "
              "destination opened in append mode only (no truncation, no seek), exactly one write() carrying message+newline for every "
              "record length n and stdio buffer capacity B (both symbolic, pure arithmetic in the model, B up to 2^20). Interleaving of "
              "concurrent writers is then excluded by the kernel's O_APPEND write atomicity (contract).")
LEVEL_NOTE = ("Trusted: CBMC; the stdio contract in models/vfs.c (one write() per flush only while the data fits the buffer; fopen 'a' = "
              "O_APPEND|O_CREAT without O_TRUNC; open() flags as given); POSIX append atomicity of a single write(). The pinned tree's defect (records larger than the stdio buffer split into several writes) was repaired in /repo (known_findings.txt).")
ASSUMPTIONS = oc.ASSUMPTIONS


def queries(ctx):
    kf = ctx["kf"]
    qs = []
    for sel in (1, 2, 3):
        qs.append(oc.out_query(sel, kf=kf, prefix="append", extra_defines=("CHECK_C17=1",)))
    if "record_larger_than_stdio_buffer" in kf:
        q = oc.out_query(3, kf=(), prefix="kf_multiwrite", extra_defines=("CHECK_C17=1",))
        q.expect, q.expect_re, q.finding_key = "finding", r"C17: the record reaches the descriptor in exactly one write", "record_larger_than_stdio_buffer"
        q.bounds += " - WITHOUT the exclusion: the solver must still find n+1 > B => 2 writes (confirms the listed finding)"
        qs.append(q)
    return qs
