"""C19 - snoopyctl disable removes only its own entry."""
import cli_common as cc

LEVEL_TEXT = ("Bounded model checking of the real disable action over a fully symbolic file content: entry absent => untouched, exit 0; two "
              "active lines mentioning the library => refusal, untouched; otherwise the new content is the old one with only the entry's line "
              "removed, every other byte identical and in order.")
LEVEL_NOTE = ("Trusted: as C18. Known finding: entries sharing the line with the library's entry are removed with it (the test suite pins "
              "whole-line removal for trailing space/tab/comment, which the oracle accepts).")
ASSUMPTIONS = cc.ASSUMPTIONS + ["known finding colocated_entries_removed: contents whose own-entry line carries another token are excluded in the passing queries and confirmed by the kf_ query"]


def queries(ctx):
    thorough = ctx["tier"] == "thorough"
    kf = ctx["kf"]
    n = 9 if thorough else 7
    qs = [cc.cq("disable_%d" % n, 1, n, kf=kf, timeout=3000 if thorough else 900), cc.cq("disable_%d" % (n - 3), 1, n - 3, kf=kf)]
    if "colocated_entries_removed" in kf:
        q = cc.cq("kf_colocated_%d" % (n - 1), 1, n - 1, kf=())
        q.expect, q.expect_re, q.finding_key = "finding", r"C19: result = old content with only the entry", "colocated_entries_removed"
        # the reference for the finding: with the exclusion off, the oracle additionally demands other tokens to survive
        q.defines = tuple(q.defines) + ("DEMAND_COLOCATED=1",)
        qs.append(q)
    return qs
