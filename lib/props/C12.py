"""C12 - identity and environment data sources report the process's true state."""
from runner import Q, Unit

LEVEL_TEXT = ("Bounded model checking of each real data source against an environment whose answers are pairwise independent symbols "
              "(real/effective uid and gid, pid, ppid, sid, tid, terminal, its owner, passwd/group entries, cwd, host, login, environment, "
              "time): the result must be the rendering of the MATCHING ghost value and the lookups must be asked for the matching id / "
              "descriptor / variable / format, with every environment call able to fail. What a solver can decide is this binding; that the "
              "kernel answers truthfully is trusted.")
LEVEL_NOTE = ("Trusted: CBMC, models vsys.c / vlibc.c. ids range over 16-bit symbols in these queries (decimal rendering is solver-hard; the "
              "binding does not depend on magnitude), names up to 7 bytes, buffer 24 bytes (real sizes are C02's queries). rpname: procfs modelled line by line "
              "in the harness, process tree of depth 1..2; cgroup: util/file.c's reader stubbed, 2-line file. domain, ipaddr, systemd_unit_name are not claimed here.")
ASSUMPTIONS = [
    "environment answers come from the ghost record v_sys (models/vsys.c); every lookup may fail by symbolic choice",
    "ids are 16-bit symbols, strings up to 7 bytes; result buffer 24 bytes; PATH_MAX-sized scratch arrays of tty/cwd sources scaled to 40 bytes in the preprocessed text (CBMC array threshold)",
]
S4096 = ((r"\b4097\b", "41"), (r"\b4096\b", "40"))
PWD = ["src/util/pwd.c"]
SRC = {
    "uid": ["src/datasource/uid.c"], "euid": ["src/datasource/euid.c"], "gid": ["src/datasource/gid.c"], "egid": ["src/datasource/egid.c"],
    "pid": ["src/datasource/pid.c"], "ppid": ["src/datasource/ppid.c"], "sid": ["src/datasource/sid.c"], "tid_kernel": ["src/datasource/tid_kernel.c"],
    "username": ["src/datasource/username.c"] + PWD, "eusername": ["src/datasource/eusername.c"],
    "group": ["src/datasource/group.c"], "egroup": ["src/datasource/egroup.c"],
    "cwd": [Unit("src/datasource/cwd.c", sed=(S4096[1],))], "hostname": ["src/datasource/hostname.c"],
    "tty": [Unit("src/datasource/tty.c", sed=S4096)],
    "tty_uid": ["src/datasource/tty_uid.c", Unit("src/datasource/tty__common.c", sed=S4096)],
    "tty_username": ["src/datasource/tty_username.c", Unit("src/datasource/tty__common.c", sed=S4096)] + PWD,
    "login": ["src/datasource/login.c"], "env": ["src/datasource/env.c"], "env_all": ["src/datasource/env_all.c"],
    "datetime": ["src/datasource/datetime.c"], "timestamp": ["src/datasource/timestamp.c"],
    "timestamp_ms": ["src/datasource/timestamp_ms.c"], "timestamp_us": ["src/datasource/timestamp_us.c"],
}


def queries(ctx):
    qs = []
    for name, units in SRC.items():
        qs.append(Q(name="ds_" + name, harness="C12_datasources.c", units=units, models=("vlibc.c", "vsys.c"),
                    defines=("DS_%s=1" % name, "V_NCH=6", "VL_MEMCPY_LOOP=1"), unwind=26, unwindset=("v_put_udec.0:2", "v_put_udec.1:2", "v_put_udec.2:2", "strncpy.0:260", "strlen.0:260", "v_format.3:44"),
                    flags=("--object-bits", "10", "--memory-leak-check"), timeout=600, mem_gb=4,
                    bounds="data source %s: all identity/environment answers symbolic and independent, every lookup may fail" % name))
    # rpname: procfs modelled line by line in the harness (the general stream model does not finish on this unit); recursion of
    # get_rpname bounded to the two-level tree of the harness
    qs.append(Q(name="ds_rpname", harness="C12_datasources.c", units=[Unit("src/datasource/rpname.c", sed=((r"\b255\b", "15"),))], models=("vlibc.c", "vsys.c"),
                defines=("DS_rpname=1", "V_NCH=6", "VL_MEMCPY_LOOP=1"), unwind=18, unwindset=("get_rpname:3", "read_proc_property.0:5", "strncpy.0:18", "v_format.3:44"),
                flags=("--object-bits", "10", "--memory-leak-check"), timeout=900, mem_gb=8,
                bounds="data source rpname: process tree of depth 1 or 2 below pid 1/0, status files of 3 lines, names of 1..4 arbitrary bytes "
                       "(no newline/NUL), every fopen may fail; NAME_MAX scaled to 15 in the preprocessed text"))
    qs.append(Q(name="ds_cgroup", harness="C12_datasources.c", units=["src/datasource/cgroup.c", "src/util/string.c"], models=("vlibc.c", "vsys.c"),
                defines=("DS_cgroup=1", "V_NCH=6", "VL_MEMCPY_LOOP=1"), unwind=22,
                unwindset=("v_format.3:44", "strnlen.0:26", "snoopy_util_string_findLineStartingWith.0:8", "strstr.0:7", "snoopy_datasource_cgroup.0:4", "doesCgroupEntryContainController.0:6"),
                flags=("--object-bits", "10", "--memory-leak-check"), timeout=900, mem_gb=8,
                bounds="data source cgroup: cgroup file of 2 lines '<digit>:<4 bytes of controller list>:<2 bytes of path>', all bytes symbolic "
                       "(commas anywhere in the list, colons and digits in the path), argument of 1..4 symbolic bytes (number or name), the read may fail; "
                       "util/file.c's reader stubbed (its memory safety is C02's)"))
    import dataclasses
    if ctx["tier"] == "thorough":
        q = [x for x in qs if x.name == "ds_rpname"][0]
        qs.append(dataclasses.replace(q, name="ds_rpname_depth3", defines=tuple(q.defines) + ("RP_DEPTH=3",), timeout=3000, mem_gb=16,
                                      unwindset=("get_rpname:4", "read_proc_property.0:5", "strncpy.0:18", "v_format.3:44"),
                                      bounds=q.bounds.replace("depth 1 or 2", "depth 1, 2 or 3")))
        q = [x for x in qs if x.name == "ds_cgroup"][0]
        qs.append(dataclasses.replace(q, name="ds_cgroup_3lines", defines=tuple(q.defines) + ("CG_NLINES=3",), unwind=33, timeout=3600, mem_gb=26,
                                      unwindset=("v_format.3:44", "strnlen.0:26", "snoopy_util_string_findLineStartingWith.0:10", "strstr.0:7", "snoopy_datasource_cgroup.0:5", "doesCgroupEntryContainController.0:6"),
                                      bounds=q.bounds.replace("2 lines", "3 lines")))
    q = [x for x in qs if x.name == "ds_env_all"][0]
    qs.append(dataclasses.replace(q, name="ds_env_all_cleared", defines=tuple(q.defines) + ("ENV_NULL=1",), bounds="data source env_all with environ == NULL (process called clearenv())"))
    return qs
