"""C10 - exec in a forked child of a multithreaded process never deadlocks."""
import tsrm_common as tc

LEVEL_TEXT = ("Bounded model checking over the same sequentialisation as C09 with a symbolic fork point at every lock/unlock boundary of a "
              "parent thread that is inside a wrapped call: the harness continues as the child (same memory image, only the forking thread "
              "exists) which performs a complete wrapped call; the lock model asserts that the child never waits for a lock owned by a thread "
              "that does not exist in the child, and the child's call must complete and release its own record.")
LEVEL_NOTE = ("Trusted: as C09; fork() copies the memory image and only the calling thread (POSIX); registered pthread_atfork handlers run "
              "(prepare in the parent before the copy, child in the child); glibc records the owner of a recursive mutex by kernel TID. The pinned "
              "tree's defect (no fork handler: child blocks on a lock held by a vanished thread) was repaired in /repo (known_findings.txt).")
ASSUMPTIONS = tc.ASSUMPTIONS + ["the forking thread is outside the library at the fork (fork() is not called from inside the wrapper)",
                                "a prepare handler that has to wait for the lock only delays the fork: that schedule equals one with a later fork point"]


def queries(ctx):
    kf = ctx["kf"]
    qs = [tc.tq("fork_anypoint_0events", 0, fork=True, kf=kf), tc.tq("fork_anypoint_2calls", 0, fork=True, kf=kf, ncalls=2)]
    # one effect of another thread (fixed acquisition index per query) before a fork at any boundary
    for p0 in range(0, 14, 1 if ctx["tier"] == "thorough" else 3):
        qs.append(tc.tq("fork_anypoint_ev%d" % p0, 1, fork=True, kf=kf, evp=(p0, 99), timeout=600))
    if "fork_while_lock_held" in kf:
        q = tc.tq("kf_fork_in_critical_section", 0, fork=True, kf=())
        q.expect, q.expect_re, q.finding_key = "finding", r"C10: forked child blocks forever", "fork_while_lock_held"
        qs.append(q)
    return qs
