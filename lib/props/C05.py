"""C05 - message format expansion is exact and length-bounded."""
from runner import Q, Unit

LEVEL_TEXT = ("Bounded model checking of the real expander (action/log-syscall-exec.c + message.c + util/string.c) against an "
              "independent reference expander written in the harness: for every format string inside the bound the emitted "
              "message equals the reference whenever it fits, never exceeds log_message_max_length, and no data source is "
              "given room for more than datasource_message_max_length bytes.")
LEVEL_NOTE = ("Trusted: CBMC, the string/format models in models/vlibc.c, the stub registry (sources 'a' = echo, 'f' = fail). "
              "The two limits are scaled constants per query (the arithmetic is parametric in them); the real minimum 255 and "
              "formats longer than the bound are outside the claim.")
ASSUMPTIONS = [
    "data source registry replaced by a stub: 'a' echoes its argument truncated to its buffer, 'f' fails with its argument as text, all other names unknown",
    "limits log_message_max_length=L and datasource_message_max_length=D are small constants per query (real range 255..1048575 is outside the bound; code is parametric in them)",
    "after the error text of an unknown or unterminated tag the oracle accepts stopping or continuing",
    "allocation failure outside the domain",
]
UNITS = ["src/action/log-syscall-exec.c", "src/message.c", "src/util/string.c"]


# the appended error texts are up to 49 bytes long: the libc string loops that walk them need a larger bound
ERRTXT_LOOPS = ("strlen.0:72", "strcat.0:72", "strcat.1:72", "r_put.0:72", "r_puts.0:72", "memcmp.0:90", "memcpy.0:90")


# Scaled constants (DESIGN 2.1/5): the five error-text literals of message.c are replaced, on the preprocessed text
# only, by short ones so that the string loops need a bound of F+L instead of 50+ (the code is parametric in them).
# The real texts are checked by the *_realtxt queries.
SCALE = (
    (r'"\[ERROR: Closing data source tag \(\'\}\'\) not found\.\]"', '"[EC]"'),
    (r'"\[ERROR: Data source \'"', '"[E\'"'),
    (r'"\' not found\.\]"', '"\'NF]"'),
    (r'"\' failed with the following error message: \'"', '"\'F\'"'),
)
UNITS_SCALED = ["src/action/log-syscall-exec.c", Unit("src/message.c", sed=SCALE), "src/util/string.c"]


TAGBUF_SCALE = ((r'char\s+dataSourceTag\s*\[[^\]]*\]', 'char dataSourceTag[4]'),)
UNITS_SCALED_TAGBUF = ["src/action/log-syscall-exec.c", Unit("src/message.c", sed=SCALE + TAGBUF_SCALE), "src/util/string.c"]


def sym_query(flen, L, D, timeout=600, mem=6.0, real=False, tagbuf=False):
    if real:
        return Q(name="sym_F%d_L%d_D%d_realtxt" % (flen, L, D), harness="C05_message.c", units=UNITS,
                 defines=("FLEN=%d" % flen, "LMAX=%d" % L, "DMAX=%d" % D, "V_STR_CAP=%d" % (flen + 2)),
                 unwind=flen + 3, unwindset=ERRTXT_LOOPS + ("snoopy_message_generateFromFormat.0:%d" % (flen // 3 + 2), "reference.3:%d" % (flen // 3 + 2)),
                 timeout=timeout, mem_gb=mem,
                 bounds="format = %d arbitrary bytes, real error texts; L=%d, D=%d" % (flen, L, D))
    return Q(name="sym_F%d_L%d_D%d%s" % (flen, L, D, "_tagbuf4" if tagbuf else ""), harness="C05_message.c",
             units=UNITS_SCALED_TAGBUF if tagbuf else UNITS_SCALED,
             defines=(("TAGBUF=4",) if tagbuf else ()) + ("FLEN=%d" % flen, "LMAX=%d" % L, "DMAX=%d" % D, "V_STR_CAP=%d" % (flen + 2), "SCALED_TEXTS=1", "REFCAP=%d" % (3 * flen + 12)),
             unwind=max(flen, L) + 8,
             unwindset=("snoopy_message_generateFromFormat.0:%d" % (flen // 3 + 2), "reference.3:%d" % (flen // 3 + 2),
                        "strstr.0:%d" % (flen + 2), "strstr.1:%d" % (flen + 2)),
             timeout=timeout, mem_gb=mem,
             bounds="format = %d arbitrary bytes, error texts scaled to 2-4 bytes%s; L=%d, D=%d" % (
                 flen, ", tag scratch buffer scaled to 4 bytes (boundary arithmetic)" if tagbuf else "", L, D))


def tmpl_query(tmpl, L, D, timeout=600, mem=6.0):
    flen = len(tmpl)
    return Q(name="tmpl_%s_L%d_D%d" % ("".join(c if c.isalnum() else {"%": "P", "{": "o", "}": "c", ":": "k", "?": "q"}.get(c, "_") for c in tmpl), L, D),
             harness="C05_message.c", units=UNITS_SCALED,
             defines=("FLEN=%d" % flen, "LMAX=%d" % L, "DMAX=%d" % D, "V_STR_CAP=%d" % (flen + 2), "SCALED_TEXTS=1", "REFCAP=%d" % (3 * flen + 12),
                      'TEMPLATE="%s"' % tmpl),
             unwind=max(flen, L) + 8,
             unwindset=("snoopy_message_generateFromFormat.0:%d" % (flen // 3 + 2), "reference.3:%d" % (flen // 3 + 2),
                        "strstr.0:%d" % (flen + 2), "strstr.1:%d" % (flen + 2)),
             timeout=timeout, mem_gb=mem,
             bounds="format template '%s' ('?' = arbitrary byte incl. NUL, other bytes fixed), error texts scaled; L=%d, D=%d" % (tmpl, L, D))


def tag_query(tlen, L, D, timeout=600, mem=6.0):
    n = tlen + 12
    return Q(name="tag_%d_L%d_D%d" % (tlen, L, D), harness="C05_message.c", units=UNITS_SCALED,
             defines=("LEAN=1", "TAGLEN=%d" % tlen, "LMAX=%d" % L, "DMAX=%d" % D, "V_STR_CAP=%d" % n, "REFCAP=%d" % (tlen + 20), "SCALED_TEXTS=1"),
             unwind=n, unwindset=("snoopy_message_generateFromFormat.0:3", "reference.3:3"), timeout=timeout, mem_gb=mem,
             bounds="format = '%%{' + tag of exactly %d bytes (first/last 3 symbolic, filler between) + '}z', real tag buffer; L=%d, D=%d" % (tlen, L, D))


def queries(ctx):
    thorough = ctx["tier"] == "thorough"
    qs = []
    if thorough:
        for (L, D) in [(6, 2), (3, 3), (8, 1), (12, 2)]:
            qs.append(sym_query(8, L, D, timeout=2400, mem=12))
    else:
        for (L, D) in [(6, 2), (3, 3), (12, 1)]:
            qs.append(sym_query(5, L, D))
    for k in range(4):
      qs.append(Q(name="real_error_texts_%d" % k, harness="C05_message.c", func="harness_texts", units=UNITS,
                defines=("FLEN=6", "LMAX=80", "DMAX=3", "REFCAP=100", "TEXTSEL=%d" % k, "TEXTC='q'"), unwind=90,
                unwindset=("snoopy_message_generateFromFormat.0:3", "reference.3:3"), timeout=300, mem_gb=6,
                bounds="formats '%{c}', 'c%{c', '%{f:c}', '%{a:c}' with c='q' (concrete: decides only that the REAL error-text literals are the documented ones); L=80, D=3"))
    qs.append(sym_query(8 if not thorough else 9, 6, 2, tagbuf=True))
    qs.append(tmpl_query("%{?:??}?%{?:?}?", 8, 2, mem=10))
    qs.append(tmpl_query("?%{?}%{?}%{?:?}", 9, 1, mem=10))
    return qs
