"""C20 - ld.so.preload is never left half-written."""
import cli_common as cc

LEVEL_TEXT = ("Bounded model checking of the real write-back path (etcLdSoPreload_writeFile via both actions) over a file model in which "
              "O_TRUNC takes effect at open and stdio may flush any prefix: a symbolic crash point ranges over every file-system call "
              "boundary, open and write may fail with a partial write; at the crash/failure instant and at exit the on-disk content must "
              "be the complete old or the complete new content; failures must yield a non-zero exit; no other file is opened.")
LEVEL_NOTE = ("Trusted: CBMC, the POSIX truncate-at-open / buffered-write contract in the harness. Known finding: truncate-then-write window "
              "(the anchors of the property state it); the remaining obligations are proved outside that window.")
ASSUMPTIONS = cc.ASSUMPTIONS[:3] + ["known finding truncate_then_write: crash points and write failures between the truncating open and the close are excluded in the passing queries and confirmed by the kf_ query"]


def queries(ctx):
    kf = ctx["kf"]
    n = 6 if ctx["tier"] == "quick" else 8
    qs = [cc.cq("crash_enable_%d" % n, 0, n, kf=kf, crash=True), cc.cq("crash_disable_%d" % n, 1, n, kf=kf, crash=True)]
    if "truncate_then_write" in kf:
        for act, nm in ((0, "enable"), (1, "disable")):
            q = cc.cq("kf_window_%s_%d" % (nm, n - 2), act, n - 2, kf=(), crash=True)
            q.expect, q.expect_re, q.finding_key = "finding", r"C20: killed/failed at a system-call boundary", "truncate_then_write"
            qs.append(q)
    return qs
