"""C16 - the wrapper leaves no residue in the calling process."""
import dataclasses, re
import runner

LEVEL_TEXT = ("Bounded model checking of the whole call path in pieces, each from an arbitrary valid state with every environment call able "
              "to fail: CBMC's memory-leak check (the solver nondeterministically tracks any one allocation = 'some block leaked'), ghost "
              "counts of open streams/sockets back to zero on every path, sockets created SOCK_CLOEXEC, no call of a function that changes "
              "environment, cwd, umask, signal mask or handlers (modelled as assertion failures), `environ` untouched, per-call library "
              "state released at the moment of the real exec and after it. Accumulation over many calls follows by induction: the "
              "post-state satisfies the same 'nothing held' predicate as the pre-state.")
LEVEL_NOTE = ("Trusted: CBMC's leak instrumentation, the environment models, the harness stubs stated in C01/C04/C09/C11/C12/C14/C15. "
              "Descriptor numbers themselves, libc-internal allocations (stdio buffers, NSS) are outside.")
ASSUMPTIONS = [
    "pieces: wrapper + per-call state (C01 harness), configuration life cycle incl. duplicate/invalid options (C11 harness), action + message + every output under all fault combinations (C04 harness), filters (C14/C15 harnesses), data sources (C12 harness), thread repository (C09 harness) - each re-run here with --memory-leak-check",
    "allocation failure outside the domain",
]


def _take(modname, pattern, ctx, prefix, leak=True, extra_models=(), extra_defines=()):
    import importlib
    mod = importlib.import_module("props." + modname)
    sub = dict(ctx)
    sub["kf"] = runner.finding_keys(modname)
    out = []
    for q in mod.queries(sub):
        if re.search(pattern, q.name) and q.expect == "pass":
            fl = tuple(q.flags)
            if leak and "--memory-leak-check" not in fl:
                fl += ("--memory-leak-check",)
            out.append(dataclasses.replace(q, name="%s_%s" % (prefix, q.name), flags=fl,
                                           models=tuple(q.models) + tuple(m for m in extra_models if m not in q.models),
                                           defines=tuple(q.defines) + tuple(extra_defines)))
    return out


def queries(ctx):
    thorough = ctx["tier"] == "thorough"
    qs = []
    qs += _take("C01", r"passthrough_(TS|NTS)$", ctx, "percall")
    qs += _take("C11", r"history_", ctx, "config")
    qs += _take("C03", r"faults_(file|socket|devtty)" if not thorough else r".", ctx, "output")          # streams/sockets closed, CLOEXEC, forbidden calls
    qs += _take("C04", r"twice_file" if not thorough else r"twice_|out_", ctx, "output")
    qs += _take("C15", r"tree_d2" if not thorough else r".", ctx, "filter")
    qs += _take("C14", r"compositional_6" if not thorough else r"compositional", ctx, "filter")
    qs += _take("C12", r"ds_(username|tty_username|egroup|group|eusername|login|rpname|cgroup)$" if not thorough else r"^ds_(?!cgroup_3lines|rpname_depth3)", ctx, "source")
    qs += _take("C09", r"rg_ev_(0_13|5_12|11_12)$" if not thorough else r"rg_ev_\d+_1[0-3]$", ctx, "threads")
    return qs
