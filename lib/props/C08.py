"""C08 - configuration file is parsed to the documented values with safe fallbacks."""
from runner import Q, Unit

LEVEL_TEXT = ("Bounded model checking of the real option parsers (configfile.c, util/parser.c, util/syslog.c, configuration.c, "
              "outputregistry.c) driven through the INI callback, each against an independent reference of the documented grammar: "
              "byte lengths (digits x k/m, clamp, default, monotone), booleans, syslog names, output name[:arg], section/unknown-key "
              "dispatch, last-wins, and the `snoopyctl conf` round trip from an arbitrary valid configuration state.")
LEVEL_NOTE = ("Trusted: CBMC, models/vlibc.c (strdup constant capacity, strtok_r, atoi/atoll saturating, snprintf). The callback interface "
              "IS inih's interface to snoopy; inih's own line grammar is decided separately (thorough tier, scaled INI_MAX_LINE). "
              "Values longer than the bounds and numbers above 18 digits are outside the claim.")
ASSUMPTIONS = [
    "non-thread-safe variant of configuration.c (one global record) so that the record can be inspected; the parsers are variant independent",
    "a doubled LOG_LOG_ prefix is outside the documented grammar and not judged",
    "length values: 1..18 decimal digits, one suffix byte, one tail byte",
    "allocation failure outside the domain",
]
UNITS = ["src/configfile.c", "src/configuration.c", "src/util/parser.c", "src/util/syslog.c", "src/util/string.c",
         "src/outputregistry.c", "src/genericregistry.c"]


def q(name, func, unwind, bounds, defines=(), timeout=600, mem=6, unwindset=(), backend=""):
    return Q(name=name, harness="C08_config.c", func=func, units=UNITS, variant="NTS", defines=("V_STR_CAP=24",) + tuple(defines),
             unwind=unwind, unwindset=unwindset, timeout=timeout, mem_gb=mem, bounds=bounds, backend=backend)


def queries(ctx):
    thorough = ctx["tier"] == "thorough"
    nd = 18 if thorough else 8
    LONG = ("strcmp.0:92", "strlen.0:92", "strdup.0:92")     # option names (29 bytes) and the compiled-in message format (83 bytes)
    vl = 7 if thorough else 5
    qs = [
        q("bytelen_%ddig" % nd, "h_bytelen", 26, "two numbers of 1..%d symbolic digits (leading zeros allowed), any suffix byte, any tail byte; min/max/default of the real options" % nd, ("NDIG=%d" % nd,), timeout=3000 if thorough else 600, backend="kissat" if thorough else ""),
        q("bytelen_record", "h_bytelen", 26, "as bytelen with 1..4 digits, additionally through the INI callback into both length options of the record", ("NDIG=4", "WITH_RECORD=1"), unwindset=LONG),
        q("bytelen_garbage_%d" % vl, "h_bytelen_garbage", 26, "length option value = %d arbitrary bytes" % vl, ("VLEN=%d" % vl,)),
        q("bool_%d" % vl, "h_bool", 26, "error_logging value = %d arbitrary bytes, both previous states" % vl, ("VLEN=%d" % vl,)),
        q("syslog_text_%d" % vl, "h_syslog", 26, "syslog_facility / syslog_level value = %d arbitrary bytes" % vl, ("VLEN=%d" % vl,)),
        q("syslog_names", "h_syslog_names", 26, "all 20 facility and 8 level names x symbolic case mask x optional LOG_ prefix in any case"),
        q("output_text_%d" % vl, "h_output", 26, "output value = %d arbitrary bytes (':' '::' ':x' 'x:' 'file:x' ...)" % vl, ("VLEN=%d" % vl,)),
        q("output_names", "h_output_names", 26, "every registered output name or an unknown one, optional ':' + 0..3 arbitrary bytes"),
        q("output_lastwins", "h_output_lastwins", 26, "two output lines: each any registered/unknown name with optional ':' + 0..3 arbitrary bytes; the second alone decides"),
        q("dispatch_%d" % vl, "h_dispatch", 32, "any known/unknown key, 4 foreign section names, value = %d arbitrary bytes" % vl, ("VLEN=%d" % vl,), unwindset=LONG),
        q("lastwins", "h_lastwins", 32, "each of the 9 options: first value 3 arbitrary bytes, second value %d arbitrary (parsable) bytes" % vl, ("VLEN=%d" % vl, "V_STR_CAP=92"), unwindset=LONG),
        q("roundtrip", "h_roundtrip", 40, "arbitrary valid configuration state: 3-byte strings, any registered output, 0..3-byte output argument, any documented facility/level, both lengths anywhere in [255,1048575]", unwindset=LONG),
    ]
    return qs
