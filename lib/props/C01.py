"""C01 - exec calls pass through unchanged, exactly once, after logging."""
import wrapper_common as wc

LEVEL_TEXT = ("Bounded model checking of the real interposers (execve-wrapper.c with init-deinit.c, inputdatastorage.c, configuration.c; "
              "thread-safe variant with tsrm.c/list.c) for two consecutive calls of symbolic kind: the recorder standing for the real "
              "libc function is entered exactly once, only after the logging action ran and the per-call state was released, with "
              "pointer-identical arguments whose bytes are unchanged, and its return value and errno reach the caller unchanged.")
LEVEL_NOTE = ("Trusted: CBMC, models (vlibc, vthread). The wrapper is pointer-transparent (never indexes the vectors), so vector/strings "
              "longer than the bound do not matter to it; dlsym failure and the dynamic loader's symbol order are outside.")
ASSUMPTIONS = wc.ASSUMPTIONS


def queries(ctx):
    thorough = ctx["tier"] == "thorough"
    qs = [wc.wq("passthrough_NTS", "NTS", 6), wc.wq("passthrough_TS", "TS", 6)]
    if thorough:
        qs += [wc.wq("passthrough_NTS_big", "NTS", 9, slen=4, nvec=4, timeout=1800), wc.wq("passthrough_TS_big", "TS", 9, slen=4, nvec=4, timeout=1800)]
    return qs
