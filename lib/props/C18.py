"""C18 - snoopyctl enable adds exactly one entry and preserves the file."""
import cli_common as cc

LEVEL_TEXT = ("Bounded model checking of the real enable action and search helpers over a fully symbolic file content against reference "
              "predicates written independently (own entry active / another active line mentions the library): unchanged+exit 0, "
              "unchanged+refusal only for an ACTIVE foreign line, or exactly old + optional newline + path + newline written once; the "
              "result has the entry active (idempotence, status lookups succeed).")
LEVEL_NOTE = "Trusted: CBMC, models/vlibc.c (strstr, strdup), the file model in the harness; scaled needle; contents longer than the bound are outside."
ASSUMPTIONS = cc.ASSUMPTIONS


def queries(ctx):
    thorough = ctx["tier"] == "thorough"
    n = 9 if thorough else 7
    return [cc.cq("enable_%d" % n, 0, n, timeout=3000 if thorough else 900), cc.cq("enable_%d" % (n - 3), 0, n - 3)]
