"""C07 - filter chain is a conjunction; a drop silences the call."""
from runner import Q, Unit

LEVEL_TEXT = ("Bounded model checking of the real chain evaluator (filtering.c + filterregistry.c + genericregistry.c) with the filter "
              "implementations replaced by pure recording stubs driven by a symbolic verdict table: for every chain inside the bound the "
              "verdict equals the conjunction over the known elements, each name runs its own implementation with exactly its argument "
              "text, unknown/empty elements are ignored. The 'drop => no output, exec proceeds' half is decided in C04/C01's harnesses.")
LEVEL_NOTE = ("Trusted: CBMC, models/vlibc.c (strtok_r, strstr), the stubbed filter bodies (the real ones are C14/C15). The chain copy "
              "buffer SNOOPY_FILTER_CHAIN_MAX_SIZE is scaled (preprocessed text only) from 4096 to fit the bound; chains longer than the "
              "bound / more than NELEM elements are outside the claim.")
ASSUMPTIONS = [
    "filter implementations replaced by pure stubs: verdict = table[id][class(first byte of arg)] with a symbolic table",
    "SNOOPY_FILTER_CHAIN_MAX_SIZE scaled 4096 -> CHAINCAP+8 and SNOOPY_FILTER_NAME/ARG_MAX_SIZE 1024 -> 40 in filtering.c's preprocessed text (the code is parametric in them; the real relation INI line cap < buffer sizes is C02's static side-condition)",
    "arguments do not contain ';' (the grammar's separator) and are at most 2 bytes in template mode",
]


def units(cap):
    # filterName[1024] / filterArg[1024] are scaled too: CBMC handles arrays above 1000 elements through its
    # array theory (quadratic), which exhausts memory; 40 is ample for the bounded names/arguments used here
    return [Unit("src/filtering.c", sed=((r"\b4096\b", str(cap)), (r"\b1024\b", "40"))), "src/filterregistry.c", "src/genericregistry.c"]


def queries(ctx):
    thorough = ctx["tier"] == "thorough"
    qs = []
    ne = 3 if thorough else 2
    cap = ne * 24 + 8
    qs.append(Q(name="template_%del_allnames" % ne, harness="C07_chain.c", units=units(cap + 8), defines=("NELEM=%d" % ne, "V_STR_CAP=8"), unwind=24,
                unwindset=("snoopy_filtering_check_chain.0:%d" % (ne + 2), "strncpy.0:%d" % (cap + 10), "strlen.0:%d" % (cap + 2), "strtok_r.0:%d" % (cap + 2), "v_format.2:%d" % (cap + 10)),
                flags=("--object-bits", "10"), timeout=3400 if thorough else 900, mem_gb=10,
                bounds="chain = ';' + %d fixed-width slots padded with ';' (+ optional trailing ';'): each slot absent or an element from {noop, only_root, only_uid, exclude_uid, only_tty, exclude_spawns_of, unknown 'bogus', empty name} x {no arg, ':'+0..2 symbolic bytes}; symbolic verdict table" % ne))
    if thorough:
        import random
        rnd = random.Random(ctx["seed"])
        for sel in sorted(rnd.sample(range(8 ** ne), 24)):
            names = [(sel // 8 ** k) % 8 for k in range(ne)]
            qs.append(Q(name="template_%del_n%s" % (ne, "".join(map(str, names))), harness="C07_chain.c", units=units(cap + 8),
                        defines=("NELEM=%d" % ne, "V_STR_CAP=8", "NAMESEL=%d" % sel), unwind=24,
                        unwindset=("snoopy_filtering_check_chain.0:%d" % (ne + 2), "strncpy.0:%d" % (cap + 10), "strlen.0:%d" % (cap + 2), "strtok_r.0:%d" % (cap + 2)),
                        flags=("--object-bits", "10"), timeout=1500, mem_gb=8,
                        bounds="as allnames with the element names fixed to %s (VERIF_SEED-sampled partition; cheap cross-check of the symbolic-name query)" % names))
    sl = 8 if thorough else 6
    qs.append(Q(name="symbolic_%d" % sl, harness="C07_chain.c", units=units(sl + 4),
                defines=("MODE_SYM=1", "SYMLEN=%d" % sl, "V_STR_CAP=8"), unwind=sl + 3,
                unwindset=("snoopy_filtering_check_chain.0:%d" % (sl // 2 + 3), "strncpy.0:%d" % (sl + 6)), flags=("--object-bits", "10"), timeout=900, mem_gb=8,
                bounds="chain = %d arbitrary bytes (grammar corners: stray ':' ';', short names), symbolic verdict table" % sl))
    return qs
