"""C02 - no configuration or exec input can crash or corrupt the calling process."""
from runner import Q, Unit

LEVEL_TEXT = ("Bounded model checking (CBMC, unwinding assertions on) of the real units one by one: memory safety, "
              "integer/shift UB, termination within the bound and NUL-terminated results for all symbolic inputs inside the stated sizes.")
LEVEL_NOTE = ("Trusted: CBMC 6.11 and its C semantics, the environment models in /verif/models, the bounds stated per query in the evidence. "
              "Outside: sizes above the bounds, allocation failure, libc internals.")

ASSUMPTIONS = [
    "allocation failure is outside the domain (--no-malloc-may-fail)",
    "environment models of models/vlibc.c (strstr, strtok_r, strdup with constant capacity, snprintf for the conversions used in /repo, atoi/atol saturating like strtol)",
]


def queries(ctx):
    thorough = ctx["tier"] == "thorough"
    qs = []
    bm = 12 if thorough else 8
    qs.append(Q(name="string_append", harness="C02_string.c", units=["src/util/string.c"],
                defines=("BUFMAX=%d" % bm,), unwind=bm + 4, timeout=300, mem_gb=2,
                bounds="destination buffer size 1..%d (symbolic), both strings arbitrary bytes up to %d long" % (bm, bm + 1)))
    return qs
