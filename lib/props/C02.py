"""C02 - no configuration or exec input can crash or corrupt the calling process."""
import dataclasses, os, re
from runner import Q, Unit, REPO

LEVEL_TEXT = ("Bounded model checking (CBMC: bounds, pointer, signed-overflow, shift checks, unwinding assertions = termination within "
              "the bound) of the real units one by one, each driven from an arbitrary valid argument state: append helper, message "
              "expansion (incl. the tag-buffer boundary), option value parsers, filter chain splitter, uid/spawn filters, cmdline/env_all "
              "truncation arithmetic, outputs, the INI parser; plus static side-conditions between the INI line cap and the fixed "
              "scratch buffers computed from the tree's real constants.")
LEVEL_NOTE = ("Trusted: CBMC 6.11 and its C semantics, the environment models in /verif/models, the bounds and scaled constants stated per "
              "query in the evidence. Outside: sizes above the bounds (the code is size-parametric; stated, not proved), allocation failure, "
              "invalid pointers, libc internals.")
ASSUMPTIONS = [
    "allocation failure is outside the domain (--no-malloc-may-fail)",
    "environment models of /verif/models (vlibc.c strings/format, vfs.c stdio/sockets, vsys.c identity) stand for libc and the kernel",
    "queries imported from the harnesses of C05/C06/C07/C08/C12/C14/C15 are re-run here for their memory-safety / termination obligations",
    "static side-conditions: a configuration value is at most INI_MAX_LINE-3 bytes (inih) and must be shorter than SNOOPY_FILTER_CHAIN_MAX_SIZE, SNOOPY_FILTER_NAME_MAX_SIZE/ARG_MAX_SIZE and the tag buffer",
]


def _mod(name):
    import importlib
    return importlib.import_module("props." + name)


def pre(ctx):
    """Static side-conditions computed from the real constants of the tree."""
    mk = open(os.path.join(REPO, "lib/inih/src/Makefile.am")).read()
    m = re.search(r"-DINI_MAX_LINE=(\d+)", mk)
    h = open(os.path.join(REPO, "src/snoopy.h")).read()
    def const(n):
        mm = re.search(r"#define\s+%s\s+(\d+)" % n, h)
        return int(mm.group(1)) if mm else None
    vals = {"INI_MAX_LINE": int(m.group(1)) if m else None, "CHAIN": const("SNOOPY_FILTER_CHAIN_MAX_SIZE"), "FNAME": const("SNOOPY_FILTER_NAME_MAX_SIZE"),
            "FARG": const("SNOOPY_FILTER_ARG_MAX_SIZE"), "DSARG": const("SNOOPY_DATASOURCE_ARG_MAX_SIZE")}
    msg = open(os.path.join(REPO, "src/message.c")).read()
    mt = re.search(r"char\s+dataSourceTag\s*\[([^\]]+)\]", msg)
    tag = None
    if mt:
        expr = mt.group(1).replace("SNOOPY_DATASOURCE_ARG_MAX_SIZE", str(vals["DSARG"] or 0))
        if re.fullmatch(r"[\d\s+*()-]+", expr):
            tag = eval(expr)
    vals["TAGBUF"] = tag
    cov = {"static_side_conditions": vals}
    if None in vals.values():
        return {"error": "could not read the constants for the static side-conditions: %r" % vals}
    maxval = vals["INI_MAX_LINE"] - 3
    bad = []
    if not maxval < vals["CHAIN"]: bad.append("filter_chain value (%d) does not fit SNOOPY_FILTER_CHAIN_MAX_SIZE (%d)" % (maxval, vals["CHAIN"]))
    if not maxval < vals["FNAME"]: bad.append("filter name (%d) does not fit SNOOPY_FILTER_NAME_MAX_SIZE (%d)" % (maxval, vals["FNAME"]))
    ctx["log"]("  [static] INI value <= %d bytes; chain buffer %d, filter name %d / arg %d, data source arg %d, tag buffer %d" % (
        maxval, vals["CHAIN"], vals["FNAME"], vals["FARG"], vals["DSARG"], vals["TAGBUF"]))
    viol = []
    if bad:
        import time
        from runner import VERIF
        rdir = os.path.join(VERIF, "replays", "C02_static_%s" % time.strftime("%Y%m%d-%H%M%S"))
        os.makedirs(rdir, exist_ok=True)
        open(os.path.join(rdir, "report.txt"), "w").write("\n".join(bad) + "\nconstants: %r\n" % vals)
        viol.append({"path": rdir, "how": bad[0]})
    return {"coverage": cov, "violations": viol}


def _take(modname, pattern, ctx, prefix):
    out = []
    sub = dict(ctx)
    sub["kf"] = []
    import runner
    sub["kf"] = runner.finding_keys(modname)
    for q in _mod(modname).queries(sub):
        if re.search(pattern, q.name) and q.expect == "pass":
            out.append(dataclasses.replace(q, name="%s_%s" % (prefix, q.name)))
    return out


def inih_query(tail, timeout=900):
    return Q(name="inih_tail%d" % tail, harness="C02_inih.c", units=[Unit("lib/inih/src/ini.c", extra_flags=("-UINI_MAX_LINE", "-DINI_MAX_LINE=32", "-UINI_INITIAL_ALLOC", "-DINI_INITIAL_ALLOC=32"))],
             models=("vlibc.c",), defines=("TAIL=%d" % tail, "LINECAP=32"), unwind=tail + 12,
             unwindset=("snoopy_ini_parse_stream.0:%d" % (tail + 3), "strncpy0.0:52", "harness.0:12", "harness.2:12"), flags=("--object-bits", "10"), timeout=timeout, mem_gb=8,
             bounds="file = '[snoopy]\\n' + %d arbitrary bytes; INI_MAX_LINE scaled 1024 -> 32 (inih is parametric in it; CBMC array threshold)" % tail)


def queries(ctx):
    thorough = ctx["tier"] == "thorough"
    qs = []
    bm = 12 if thorough else 8
    qs.append(Q(name="string_append", harness="C02_string.c", units=["src/util/string.c"],
                defines=("BUFMAX=%d" % bm,), unwind=bm + 4, timeout=300, mem_gb=2,
                bounds="destination buffer size 1..%d (symbolic), both strings arbitrary bytes up to %d long" % (bm, bm + 1)))
    qs += _take("C05", r"sym_F5_L6|tagbuf" if not thorough else r"sym_|tagbuf|tmpl", ctx, "message")
    qs += _take("C08", r"output_text|syslog_text|bytelen_garbage|bool" if not thorough else r".", ctx, "option")
    qs += _take("C07", r"symbolic" if not thorough else r".", ctx, "chain")
    qs += _take("C06", r"join_NTS_buf(2|7)$" if not thorough else r".", ctx, "cmdline")
    qs += _take("C12", r"env_all|ds_env$|ds_login|ds_hostname|ds_tty$|ds_cwd" if not thorough else r"^ds_(?!cgroup_3lines|rpname_depth3)", ctx, "source")
    for bs in ((9, 12, 16) if not thorough else (6, 7, 9, 10, 12, 14, 16, 20)):
        base = [q for q in _mod("C12").queries(ctx) if q.name == "ds_env_all"][0]
        qs.append(dataclasses.replace(base, name="source_env_all_trunc_buf%d" % bs, defines=tuple(base.defines) + ("BUFSZ=%d" % bs,),
                                      bounds="env_all with a %d-byte result buffer and two entries of up to 7 bytes: every truncation position" % bs))
    if thorough:
        qs += _take("C14", r".", ctx, "uidfilter")
        qs += _take("C15", r".", ctx, "spawns")
        qs += _take("C04", r"out_(devlog|socket|file)", ctx, "output")
        qs.append(inih_query(5, timeout=3000))
    qs.append(inih_query(3))
    return qs
