"""C06 - cmdline and filename describe the current call only."""
import wrapper_common as wc

LEVEL_TEXT = ("Bounded model checking of the real cmdline.c / filename.c behind the real wrapper init/exit and input storage, against a "
              "reference join written in the harness, for every result-buffer size in the swept range (below, at and above the joined "
              "length). Histories by induction: two consecutive calls of symbolic kind from an arbitrary between-calls state; the second "
              "call's values must be functions of its own inputs only, and the storage must be back at the empty defaults after each call.")
LEVEL_NOTE = ("Trusted: CBMC, models/vlibc.c snprintf. Vectors of more than the bounded number of entries / longer strings are outside "
              "(the join loop is per entry); buffer sizes are small constants (the arithmetic is relative to the size).")
ASSUMPTIONS = wc.ASSUMPTIONS


def queries(ctx):
    thorough = ctx["tier"] == "thorough"
    qs = []
    sizes = (1, 2, 3, 4, 5, 6, 7, 8, 9, 10, 11, 12, 13, 14) if thorough else (1, 2, 4, 7, 12)
    for b in sizes:
        qs.append(wc.wq("join_NTS_buf%d" % b, "NTS", b))
    for b in ((2, 5, 8, 12) if thorough else (5,)):
        qs.append(wc.wq("join_TS_buf%d" % b, "TS", b))
    return qs
