"""C11 - each call sees only the current configuration, nothing carried over."""
from runner import Q, Unit

LEVEL_TEXT = ("Bounded model checking of the real configuration life cycle (configuration.c ctor/dtor, configfile.c option parsers, "
              "init-deinit.c; both the thread-safe build with tsrm.c and the non-thread-safe build) over a model of the INI parser that "
              "delivers an arbitrary bounded option sequence, reports the file absent, or reports a syntax error: fresh-process call under "
              "F2, then a call under an arbitrary F1, then a call under F2 again must observe identical settings (2-safety), with CBMC's "
              "memory-leak and double-free checks on and the between-calls state clean. Longer histories follow by induction on that state.")
LEVEL_NOTE = ("Trusted: CBMC (fresh heap blocks have arbitrary content, so a field that is not rewritten is an arbitrary value), "
              "models/vlibc.c and vthread.c, the ini_parse model (inih itself is C02/C08). Option values up to 4 bytes, 2 options per file.")
ASSUMPTIONS = [
    "ini_parse replaced by a model: file absent (-1, no callbacks) or 0..NOPT callbacks for [snoopy] with key from the option table / unknown and value of up to VLEN arbitrary bytes, then return 0 or a syntax-error line number",
    "output implementations stubbed (only their names matter to the output option parser)",
    "TS variant: sequential pthread model, one thread",
    "allocation failure outside the domain",
]
BASE = ["src/configuration.c", "src/configfile.c", "src/util/parser.c", "src/util/syslog.c", "src/util/string.c", "src/outputregistry.c",
        "src/genericregistry.c", "src/init-deinit.c", "src/inputdatastorage.c"]


def hq(name, variant, nopt, vlen, timeout=900, outputs=False):
    units = BASE + (["src/tsrm.c", "src/util/list.c"] if variant == "TS" else [])
    models = ("vlibc.c", "vthread.c") if variant == "TS" else ("vlibc.c",)
    return Q(name=name, harness="C11_history.c", units=units, models=models, variant=variant,
             defines=("NOPT=%d" % nopt, "VLEN=%d" % vlen, "V_STR_CAP=%d" % (12 if outputs else vlen + 2)) + (("OUTPUT_TEMPLATE=1",) if outputs else ()), unwind=12,
             unwindset=("strcmp.0:32", "strlen.0:92", "scpy.0:96", "seq.0:96"),
             flags=("--memory-leak-check", "--object-bits", "10"), timeout=timeout, mem_gb=8,
             bounds="%s build; files F1, F2: absent, syntax error, or 0..%d options (any key incl. unknown, duplicates) with values of 0..%d arbitrary bytes; sequence fresh(F2), F1, F2" % (
                 "thread-safe" if variant == "TS" else "non-thread-safe", nopt, vlen))


def queries(ctx):
    thorough = ctx["tier"] == "thorough"
    if thorough:
        return [hq("history_TS", "TS", 3, 5, 3000), hq("history_NTS", "NTS", 3, 5, 3000), hq("history_outputs_TS", "TS", 3, 4, 3000, outputs=True), hq("history_outputs_NTS", "NTS", 3, 4, 3000, outputs=True)]
    return [hq("history_TS", "TS", 2, 4), hq("history_NTS", "NTS", 2, 4), hq("history_outputs_TS", "TS", 2, 4, outputs=True)]
