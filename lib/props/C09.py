"""C09 - concurrent exec calls from threads stay isolated and complete."""
import tsrm_common as tc

LEVEL_TEXT = ("Bounded model checking of a rely/guarantee sequentialisation of the real tsrm.c + util/list.c: at every lock acquisition of "
              "the thread under test the other threads perform an arbitrary bounded sequence of their permitted effects through the real "
              "list code. Asserted: every repository access holds the lock; the call always reads back its own path and configuration; "
              "the repository invariant (chain, count, one record per thread inside) holds; after the call its record is gone and the others' "
              "are intact; the lock is released; no leak, no double free; empty repository once everybody left.")
LEVEL_NOTE = ("Claimed level: bounded model checking of a sequentialisation at lock granularity, NOT of all machine schedules. Trusted: CBMC, "
              "models/vthread.c (mutex owner/depth ghosts), the effect alphabet of the other threads.")
ASSUMPTIONS = tc.ASSUMPTIONS


NP = 14      # lock acquisitions of one wrapped call (upper bound; indices beyond the real number are vacuous partitions that still pass)


def queries(ctx):
    thorough = ctx["tier"] == "thorough"
    qs = []
    # two effects of other threads at every ordered pair of the thread-under-test's lock acquisitions (partitioned: one query per pair)
    for p0 in range(NP):
        for p1 in range(p0, NP):
            qs.append(tc.tq("rg_ev_%d_%d" % (p0, p1), 2, evp=(p0, p1), timeout=300))
    # record formatting interleaved with another thread's formatting (sequentialised at the data-source call): no shared scratch state
    import dataclasses, importlib
    c05 = importlib.import_module("props.C05")
    for q in c05.queries(dict(ctx, kf=[])):
        if q.name in ("sym_F5_L12_D1", "sym_F5_L6_D2"):
            qs.append(dataclasses.replace(q, name="interleaved_format_" + q.name[:12], defines=tuple(q.defines) + ("CONCURRENT=1",),
                                          bounds=q.bounds + "; another thread's complete formatting call runs inside every data-source call of this thread"))
    if thorough:
        for p0 in range(0, 2 * NP, 2):
            for p1 in range(p0, 2 * NP, 3):
                qs.append(tc.tq("rg2calls_ev_%d_%d" % (p0, p1), 2, evp=(p0, p1), ncalls=2, timeout=600))
        qs.append(tc.tq("rg_leakcheck", 1, ncalls=1, leak=True, timeout=1800))
    return qs
