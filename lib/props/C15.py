"""C15 - exclude_spawns_of drops exactly descendants of listed programs."""
from runner import Q, Unit

LEVEL_TEXT = ("Bounded model checking of the real filter over a procfs model: ancestor chains of symbolic depth with symbolic names "
              "(including spaces and parentheses), symbolic program list, every fopen/fread of /proc/<pid>/stat may fail; the verdict must "
              "equal the reference 'some ancestor strictly above the process, readable up to it, carries a listed name'.")
LEVEL_NOTE = ("Trusted: CBMC, models vlibc.c (strtok_r, sscanf \" %c %d\", snprintf) and vfs.c; the kernel's stat line format and an acyclic "
              "parent chain. Depth, name length and list length beyond the bounds are outside (per-iteration loop bodies).")
ASSUMPTIONS = [
    "ancestor pids fixed (40,30,20,10), own pid 50, chain ends with parent pid 0; names 1..3 bytes over {a,b,space,(,)}; list over the same alphabet plus ','",
    "procfs stat line rendered as '<pid> (<name>) S <ppid> 1\\n' (kernel format); reads are complete or fail (short reads of procfs are not modelled here)",
    "every fopen / fread may fail by symbolic choice",
]


def queries(ctx):
    thorough = ctx["tier"] == "thorough"
    qs = []
    for depth, ll in ([(2, 5), (3, 4)] if not thorough else [(3, 7), (4, 5)]):
        qs.append(Q(name="tree_d%d_l%d" % (depth, ll), harness="C15_spawns.c", units=["src/filter/exclude_spawns_of.c"], models=("vlibc.c", "vfs.c"),
                    defines=("DEPTH=%d" % depth, "LISTLEN=%d" % ll, "V_STR_CAP=%d" % (ll + 2), "VL_MALLOC_CAP=64", "VL_MEMCPY_LOOP=1", "V_NCH=14"), unwind=ll + 3,
                    unwindset=("snoopy_filter_exclude_spawns_of.0:1", "find_ancestor_in_list.0:%d" % (depth + 2), "v_copy_bounded.0:26", "v_put_udec.0:2", "v_put_udec.1:2", "v_put_udec.2:2", "v_put_u32.0:11", "v_put_u32.1:11", "v_put_u32.2:11",
                               "strchr.0:20", "strrchr.0:20", "fread.0:20", "strlen.0:20", "render.0:14", "harness.1:16", "harness.0:16", "v_format.3:16", "v_format.0:4", "v_format.1:4", "v_format.2:4", "strcmp.0:8", "strncmp.0:8"),
                    flags=("--object-bits", "10", "--memory-leak-check"), timeout=1500 if thorough else 600, mem_gb=8,
                    bounds="chains of depth 1..%d, names 1..3 symbolic bytes, program list = %d symbolic bytes, every open/read may fail" % (depth, ll)))
    return qs
