"""C04 - exactly one faithful record per logged exec, none when filtered."""
from runner import Q, Unit
import outputs_common as oc

LEVEL_TEXT = ("Bounded model checking of the real action + dispatch + output registry + every output against an oracle over the "
              "ghost I/O log of the stdio/socket model: zero I/O for dropped/empty messages; otherwise exactly one record at the "
              "configured sink and nowhere else, byte for byte with the documented framing (devlog prefix built by the oracle's own "
              "decimal printer), handed to the OS before the action returns.")
LEVEL_NOTE = ("Trusted: CBMC, models/vfs.c and vlibc.c (stdio buffering contract, socket calls), the scaled constants listed in the evidence. "
              "What the kernel / syslogd does with a datagram is outside.")
ASSUMPTIONS = oc.ASSUMPTIONS


def queries(ctx):
    thorough = ctx["tier"] == "thorough"
    qs = [oc.out_query(k, kf=ctx["kf"]) for k in range(9)]
    # a second call in the same process image (failed exec followed by another exec, vfork, threads) behaves like the first
    for k in (3, 2, 4):
        qs.append(oc.out_query(k, kf=ctx["kf"], prefix="twice", extra_defines=("TWICE=1",)))
    # large pids (Linux pid_max may be 2^22): decimal rendering is solver-hard, so the range is partitioned: base + 6 symbolic bits
    for base in (99990, 999990, 4194240):
        qs.append(oc.out_query(0, kf=ctx["kf"], prefix="pid%d" % base, extra_defines=("PIDBASE=%d" % base, "PIDBITS=6")))
    if thorough:
        # longer messages / arguments
        for k in (3, 4, 0, 6):
            qs.append(oc.out_query(k, kf=ctx["kf"], prefix="long", extra_defines=("MSGMAX=9", "ARGMAXLEN=9"), timeout=3000))
    return qs
