"""C03 - logging failures never block, signal or abort the exec."""
from runner import Q, Unit
import outputs_common as oc

LEVEL_TEXT = ("Bounded model checking with every environment call on the path (fopen/fprintf/fclose/socket/connect/send/close, and the "
              "procfs / tty / passwd lookups of the data sources and filters) independently succeeding or failing with an arbitrary errno - "
              "all single and multiple faults in one query. Asserted: the code under test returns (unwinding assertions), never calls a "
              "process-terminating, signal-raising or blocking function, sockets are SOCK_NONBLOCK|SOCK_CLOEXEC and sends MSG_DONTWAIT|"
              "MSG_NOSIGNAL, every failure path closes what it opened.")
LEVEL_NOTE = ("Trusted: CBMC, the failure contracts in models/vfs.c / vsys.c. Wall-clock promptness, FIFOs given as file path, SIGPIPE on "
              "stdio outputs and the optional libc syslog() output are outside (see DESIGN).")
ASSUMPTIONS = oc.ASSUMPTIONS + ["process-level effects (exit, abort, raise, kill, sigaction, setenv, chdir, umask, sleep ...) are modelled as assertion failures in models/vsys.c"]


def queries(ctx):
    qs = []
    for sel in (0, 3, 4, 2):
        q = oc.out_query(sel, kf=(), prefix="faults")
        q.models = ("vlibc.c", "vfs.c", "vsys.c")
        q.defines = tuple(q.defines) + ("HAVE_VSYS=1",)
        qs.append(q)
    # faults while GATHERING data: every passwd/group/tty/cwd/hostname/time lookup and every procfs open/read may fail
    import dataclasses as _dc, importlib as _il, runner as _r
    for modname, pat in (("C12", r"ds_(username|eusername|group|egroup|tty_uid|tty_username|cwd|hostname|login|datetime|timestamp|rpname|cgroup)$"), ("C15", r"tree_d2")):
        sub = dict(ctx); sub["kf"] = _r.finding_keys(modname)
        for q in _il.import_module("props." + modname).queries(sub):
            import re as _re
            if _re.search(pat, q.name) and q.expect == "pass":
                qs.append(_dc.replace(q, name="gather_" + q.name))
    # overlong ident / path template with error logging on: the error report must not re-enter the failing output without bound
    import dataclasses
    from runner import Unit
    for sel, nm in ((0, "ident"), (3, "path")):
        q = oc.out_query(sel, kf=(), prefix="overlong_" + nm, extra_defines=("OVERLONG_TEMPLATE=1", "ARGMAXLEN=60", "V_PATHCAP=70"))
        units = []
        for u in q.units:
            if isinstance(u, str) and u.endswith("devlogoutput.c"):
                u = Unit(u, sed=((r"\b256\b", "2"),))        # SNOOPY_SYSLOG_IDENT_FORMAT_BUF_SIZE scaled 256 -> 2 (ident "ii" no longer fits)
            units.append(u)
        q.units = units
        q.unwindset = tuple(x for x in q.unwindset if not x.startswith("strlen.0")) + ("harness.0:64", "harness.1:64", "harness.2:64", "harness.3:64", "harness.4:64", "harness.5:64", "harness.6:64", "harness.7:64", "harness.8:64", "v_format.2:64", "v_format.3:64", "send.0:44", "strlen.0:72", "strstr.0:72", "strstr.1:72", "strcat.0:72", "strcat.1:72", "memcpy.0:72", "v_copy_bounded.0:72")
        q.models = ("vlibc.c", "vfs.c", "vsys.c")
        q.defines = tuple(q.defines) + ("HAVE_VSYS=1",)
        q.bounds = "output %s with a %s template longer than its (scaled) buffer, error_logging on, all I/O succeeding: nearly concrete run; judged: termination, bounded error reporting (<= 6 opens/sockets), nothing left open" % (oc.OUTNAMES[sel], nm)
        qs.append(q)
    return qs
