"""C03 - logging failures never block, signal or abort the exec."""
from runner import Q, Unit
import outputs_common as oc

LEVEL_TEXT = ("Bounded model checking with every environment call on the path (fopen/fprintf/fclose/socket/connect/send/close, and the "
              "procfs / tty / passwd lookups of the data sources and filters) independently succeeding or failing with an arbitrary errno - "
              "all single and multiple faults in one query. Asserted: the code under test returns (unwinding assertions), never calls a "
              "process-terminating, signal-raising or blocking function, sockets are SOCK_NONBLOCK|SOCK_CLOEXEC and sends MSG_DONTWAIT|"
              "MSG_NOSIGNAL, every failure path closes what it opened.")
LEVEL_NOTE = ("Trusted: CBMC, the failure contracts in models/vfs.c / vsys.c. Wall-clock promptness, FIFOs given as file path, SIGPIPE on "
              "stdio outputs and the optional libc syslog() output are outside (see DESIGN).")
ASSUMPTIONS = oc.ASSUMPTIONS + ["process-level effects (exit, abort, raise, kill, sigaction, setenv, chdir, umask, sleep ...) are modelled as assertion failures in models/vsys.c"]


def queries(ctx):
    qs = []
    for sel in (0, 3, 4, 2):
        q = oc.out_query(sel, kf=(), prefix="faults")
        q.models = ("vlibc.c", "vfs.c", "vsys.c")
        q.defines = tuple(q.defines) + ("HAVE_VSYS=1",)
        qs.append(q)
    return qs
