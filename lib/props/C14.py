"""C14 - UID filters decide by exact membership of the real uid."""
from runner import Q, Unit

LEVEL_TEXT = ("Bounded model checking of only_uid/exclude_uid/only_root with util/parser.c against a 64-bit membership oracle: "
              "(a) compositional - list text fully symbolic, the decimal conversion replaced by a recording model that checks the "
              "item text byte for byte and returns an arbitrary value the oracle shares; (b) end-to-end over decimal digits with the "
              "validated atol model. uid and euid are independent 32-bit symbols.")
LEVEL_NOTE = ("Trusted: CBMC; that atol maps decimal text to its value (libc contract; the model in models/vlibc.c is validated against glibc); "
              "lists longer than the bound (per-item loop body) are outside the claim.")
ASSUMPTIONS = [
    "well-formed lists: every item denotes a value in [0, 2^32-2] (malformed lists are C02's domain)",
    "compositional mode: atol is a recording model (argument text checked against the reference split, arbitrary value returned)",
    "getuid()/geteuid() return independent arbitrary 32-bit values",
]
# optional scaling: the pinned filters have no fixed-size scratch buffer; if a change introduces one sized by the documented
# 1024-byte argument limit it is scaled like everywhere else (CBMC array threshold) so that its boundary falls inside the bound
OPT = ((r"\b1024\b", "8", "optional"),)
UNITS = [Unit("src/filter/only_uid.c", sed=OPT), Unit("src/filter/exclude_uid.c", sed=OPT), "src/filter/only_root.c", "src/util/parser.c", "src/util/string.c"]


def queries(ctx):
    thorough = ctx["tier"] == "thorough"
    qs = []
    cap = 9 if thorough else 6
    qs.append(Q(name="compositional_%d" % cap, harness="C14_uid.c", units=UNITS,
                defines=("ARGCAP=%d" % cap, "VL_NO_ATOL=1", "V_STR_CAP=%d" % (cap + 1)), unwind=cap + 3, timeout=900, mem_gb=8,
                bounds="list = %d arbitrary bytes (up to %d items incl. empty ones); per-item values arbitrary in [0,2^32-2]; uid, euid arbitrary 32-bit" % (cap, cap + 1)))
    for li in ((10,) if not thorough else (9, 10, 11)):
        qs.append(Q(name="compositional_longitem%d" % li, harness="C14_uid.c", units=UNITS,
                    defines=("ARGCAP=%d" % (li + 2), "LONGITEM=%d" % li, "VL_NO_ATOL=1", "V_STR_CAP=%d" % (li + 3), "VL_MALLOC_CAP=64", "NO_EUID2=1"), unwind=li + 5, timeout=900, mem_gb=8,
                    bounds="list = one item of exactly %d arbitrary bytes, optionally followed by ',' and one more byte; values arbitrary" % li))
    for items, digits in ([(2, 3)] if not thorough else [(3, 3), (2, 5), (4, 2)]):
        n = items * (digits + 1) + 1
        qs.append(Q(name="digits_%dx%d" % (items, digits), harness="C14_uid.c", units=UNITS,
                    defines=("MODE_DIGITS=1", "ITEMS=%d" % items, "DIGITS=%d" % digits, "ARGCAP=%d" % (items * digits), "V_STR_CAP=%d" % (n + 1)),
                    unwind=n + 2, timeout=900, mem_gb=8,
                    bounds="list = 1..%d items of 1..%d decimal digits each (leading zeros allowed), real decimal conversion" % (items, digits)))
    if thorough:
        qs.append(Q(name="digits_1x10_kissat", harness="C14_uid.c", units=UNITS, backend="kissat",
                    defines=("MODE_DIGITS=1", "ITEMS=1", "DIGITS=10", "ARGCAP=10", "V_STR_CAP=13"), unwind=14, timeout=1500, mem_gb=8,
                    bounds="one item of 1..10 digits (values up to 2^32-2)"))
    return qs
