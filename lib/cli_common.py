"""Shared query builder for the snoopyctl harness (C18_cli.c) used by C18, C19, C20."""
from runner import Q, Unit

NEEDLE = ((r'"libsnoopy\.so"', '"ls"'),)
UNITS = [Unit("src/cli/action-enable.c", sed=NEEDLE), Unit("src/cli/action-disable.c", sed=NEEDLE), "src/cli/cli-subroutines.c", "src/util/string.c"]
ASSUMPTIONS = [
    "scaled constants (preprocessed text of the two action units only): needle 'libsnoopy.so' -> 'ls'; library path '/ls' and preload path '/p' come from the environment model (the search helpers are parametric in needle and path)",
    "one on-disk file with POSIX stdio semantics modelled in the harness: fopen('r') => ENOENT if absent; fopen('w+') truncates at open; fprintf buffers and may flush any prefix; fclose flushes",
    "diagnostic output (printf family on stdout/stderr) is silent; access() succeeds; heap blocks have constant capacity (functional harness)",
    "C18/C19: write calls succeed (their failures and crash points are C20's subject)",
]


def cq(name, action, clen, kf=(), crash=False, timeout=900, mem=8.0):
    defs = ("ACTION=%d" % action, "CLEN=%d" % clen, "VL_MALLOC_CAP=%d" % (clen + 12), "V_STR_CAP=%d" % (clen + 12), "VL_MEMCPY_LOOP=1") + tuple("KF_" + k for k in kf)
    if crash:
        defs += ("CRASH=1",)
    n = clen + 10
    return Q(name=name, harness="C18_cli.c", units=UNITS, models=("vlibc.c",), defines=defs, unwind=n, unwindset=("strcmp.0:34",),
             flags=("--object-bits", "10"), timeout=timeout, mem_gb=mem,
             bounds="%s; file absent or content = %d arbitrary bytes (any lines, comments, CR, missing final newline, needle anywhere)%s" % (
                 "enable" if action == 0 else "disable", clen, "; crash point at every file-system call boundary, open/write may fail with partial write" if crash else ""))
