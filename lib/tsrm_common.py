"""Shared query builder for the tsrm harness (C09_tsrm.c) used by C09 and C10."""
from runner import Q, Unit

RENAMES = ("snoopy_util_list_push=real_list_push", "snoopy_util_list_remove=real_list_remove", "snoopy_util_list_fetchNextNode=real_list_fetchNextNode")
UNITS = ["src/tsrm.c", Unit("src/util/list.c", defines=RENAMES), "src/init-deinit.c", "src/configuration.c", "src/inputdatastorage.c"]
ASSUMPTIONS = [
    "sequential rely/guarantee encoding (CBMC's thread mode is unsound on this heap): other threads (ids 2, 3) act only at the points where the thread under test acquires the repository lock from depth 0, and only through their permitted effects enter/leave performed with the REAL list code",
    "interleavings finer than lock granularity, more than 2 other threads, and libc's own thread safety are outside the claim",
    "util/list.c's entry points renamed in that unit only and wrapped by lock-held assertions; config file loader stubbed",
    "allocation failure outside the domain",
]


def tq(name, nev, fork=False, kf=(), timeout=900, ncalls=1, evp=None, forkp=None, leak=False):
    defs = (() if evp is None else ("EVP0=%d" % evp[0], "EVP1=%d" % evp[1])) + (() if forkp is None else ("FORKP=%d" % forkp,)) + ("NEV=%d" % nev, "NCALLS=%d" % ncalls, "VL_BOUNDARY_HOOK=1") + (("FORK=1",) if fork else ()) + tuple("KF_" + k for k in kf)
    return Q(name=name, harness="C09_tsrm.c", units=UNITS, models=("vlibc.c", "vthread.c"), variant="TS", defines=defs, unwind=7,
             flags=("--object-bits", "12" if fork else "10") + (("--memory-leak-check",) if leak else ()), timeout=timeout, mem_gb=8 if fork else 4,
             bounds="%d wrapped call(s) of the thread under test; %d effect(s) of other threads (enter/leave of threads 2, 3), each at %s of its lock acquisitions%s" % (
                 ncalls, nev, "an arbitrary one" if evp is None else "acquisition #%d / #%d" % evp, "; fork by thread 2 at any lock/unlock boundary, child performs a complete wrapped call" if fork else ""))
