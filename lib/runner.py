#!/usr/bin/env python3
"""Core of the /verif machinery: build goto binaries from /repo's current working
tree, run CBMC queries in parallel under time/memory caps, classify the results,
replay counterexamples natively, write evidence.

Stdlib only.  See DESIGN.md section 2.
"""
import dataclasses, hashlib, json, os, re, resource, shutil, signal, subprocess, sys
import tempfile, threading, time
from concurrent.futures import ThreadPoolExecutor
from dataclasses import dataclass, field
from typing import Optional

VERIF = os.path.dirname(os.path.dirname(os.path.abspath(__file__)))
REPO = os.environ.get("VERIF_REPO", "/repo")
MODELS = os.path.join(VERIF, "models")
HARNESS = os.path.join(VERIF, "harness")
NCPU = os.cpu_count() or 4
MEM_BUDGET_GB = float(os.environ.get("VERIF_MEM_GB", "48"))

CBMC_BASE_FLAGS = [
    "--unwinding-assertions", "--drop-unused-functions",
    "--signed-overflow-check", "--undefined-shift-check",
    "--no-malloc-may-fail",          # allocation failure is outside every property's domain
]


class FrameworkError(Exception):
    pass


# --------------------------------------------------------------------------
# Query description
# --------------------------------------------------------------------------
@dataclass
class Unit:
    """One real translation unit of /repo (path relative to /repo)."""
    path: str
    defines: tuple = ()          # extra -D for this unit only (e.g. renames "name=real_name")
    sed: tuple = ()              # (pattern, replacement) applied to the *preprocessed* text (scaled constants)
    extra_flags: tuple = ()

    def key(self):
        return (self.path, tuple(self.defines), tuple(self.sed), tuple(self.extra_flags))


@dataclass
class Q:
    name: str                            # unique inside the property
    harness: str                         # file under /verif/harness
    units: list = field(default_factory=list)   # list of str | Unit
    func: str = "harness"
    variant: str = "TS"                  # TS | NTS | custom key registered with Build.add_variant
    defines: tuple = ()                  # -D for harness + models (bounds, partitions, KF_ exclusions)
    models: tuple = ("vlibc.c",)
    unwind: int = 8
    unwindset: tuple = ()                # ("loopid:N", ...)
    flags: tuple = ()
    timeout: int = 300
    mem_gb: float = 4.0
    backend: str = ""                    # "" (MiniSat) | "kissat" | "cadical"
    expect: str = "pass"                 # "pass" | "finding" (= a property matching expect_re must FAIL: a known finding's witness)
    expect_re: str = ""
    finding_key: str = ""                # for expect == "finding"
    witness: bool = True                 # harness ends in V_WITNESS()
    bounds: str = ""                     # human-readable bound statement for the evidence
    weight: int = 1


@dataclass
class QResult:
    q: Q
    status: str = "error"       # pass | fail | finding-present | finding-absent | inconclusive | error
    detail: str = ""
    wall_s: float = 0.0
    rss_mb: float = 0.0
    n_props: int = 0
    n_ok: int = 0
    failed: list = field(default_factory=list)      # [(property id, description, file, line, function)]
    witness_ok: bool = False
    functions: list = field(default_factory=list)
    gb: str = ""
    cmd: list = field(default_factory=list)
    solver_s: float = 0.0
    sat_vars: int = 0
    sat_clauses: int = 0
    replay: Optional[dict] = None


# --------------------------------------------------------------------------
# Build
# --------------------------------------------------------------------------
class Build:
    def __init__(self, scratch):
        self.scratch = scratch
        self.lock = threading.Lock()
        self.keylocks = {}
        self.cache = {}
        self.variants = {}
        self._mk_variants()

    # -- config.h variants -------------------------------------------------
    def _base_config(self):
        p = os.path.join(REPO, "config.h")
        if os.path.exists(p):
            return open(p).read()
        # config.h is a (git-ignored) product of ./configure; regenerate in a scratch copy.
        cp = os.path.join(self.scratch, "repo_cfg")
        subprocess.run(["rsync", "-a", "--exclude", ".git", REPO + "/", cp + "/"], check=True)
        r = subprocess.run(["sh", "-c", "./configure CFLAGS=-Wno-error >/dev/null 2>&1"], cwd=cp)
        if r.returncode != 0 or not os.path.exists(os.path.join(cp, "config.h")):
            raise FrameworkError("cannot obtain config.h (no /repo/config.h and ./configure failed)")
        txt = open(os.path.join(cp, "config.h")).read()
        shutil.rmtree(cp, ignore_errors=True)
        return txt

    def _mk_variants(self):
        base = self._base_config()
        self.base_config = base
        self.add_variant("TS", base)
        nts = re.sub(r"^#define SNOOPY_CONF_THREAD_SAFETY_ENABLED.*$",
                     "/* #undef SNOOPY_CONF_THREAD_SAFETY_ENABLED */", base, flags=re.M)
        self.add_variant("NTS", nts)

    def add_variant(self, key, text):
        d = os.path.join(self.scratch, "cfg_" + key)
        os.makedirs(d, exist_ok=True)
        with open(os.path.join(d, "config.h"), "w") as f:
            f.write(text)
        self.variants[key] = d
        return d

    def incs(self, variant):
        return ["-I" + self.variants[variant], "-I" + os.path.join(REPO, "src"), "-I" + REPO, "-I" + MODELS, "-I" + HARNESS]

    # -- compile helpers ---------------------------------------------------
    def _run(self, cmd, what):
        r = subprocess.run(cmd, capture_output=True, text=True)
        if r.returncode != 0:
            raise FrameworkError("%s failed: %s\n%s" % (what, " ".join(cmd), (r.stderr or r.stdout)[-3000:]))
        return r

    def unit_flags(self, u):
        fl = []
        if u.path.startswith("lib/inih/"):
            # flags of the real build, read from the tree each run
            mk = open(os.path.join(REPO, "lib/inih/src/Makefile.am")).read()
            m = re.search(r"AM_CFLAGS \+= (.*)", mk)
            if m:
                for tok in re.findall(r"'[^']*'|\S+", m.group(1)):
                    tok = tok.strip("'")
                    if tok.startswith("-DINI_API"):
                        tok = "-DINI_API="
                    fl.append(tok)
        return fl

    def _keylock(self, key):
        with self.lock:
            return self.keylocks.setdefault(key, threading.Lock())

    def goto_unit(self, u, variant):
        if isinstance(u, str):
            u = Unit(u)
        key = ("gb", u.key(), variant)
        with self._keylock(key):
            return self._goto_unit(u, variant, key)

    def _goto_unit(self, u, variant, key):
        with self.lock:
            if key in self.cache:
                return self.cache[key]
        h = hashlib.sha1(repr(key).encode()).hexdigest()[:12]
        out = os.path.join(self.scratch, "u_%s_%s.gb" % (os.path.basename(u.path).replace(".", "_"), h))
        src = os.path.join(REPO, u.path)
        if not os.path.exists(src):
            raise FrameworkError("unit missing in /repo: " + u.path)
        flags = ["-std=c99", "-D__NO_CTYPE", "-DVERIF_CBMC"] + self.incs(variant) + \
                ["-D" + d for d in u.defines] + self.unit_flags(u) + list(u.extra_flags)
        if u.sed:
            pre = out + ".i"
            r = self._run(["gcc", "-E"] + flags + [src], "preprocess " + u.path)
            txt = r.stdout
            for ent in u.sed:
                pat, rep = ent[0], ent[1]
                txt, n = re.subn(pat, rep, txt)
                if n == 0 and not (len(ent) > 2 and ent[2] == "optional"):
                    raise FrameworkError("scaled-constant pattern %r not found in %s" % (pat, u.path))
            with open(pre, "w") as f:
                f.write(txt)
            self._run(["goto-cc", "-std=c99", "-x", "cpp-output", "-c", pre, "-o", out], "goto-cc " + u.path)
        else:
            self._run(["goto-cc"] + flags + ["-c", src, "-o", out], "goto-cc " + u.path)
        with self.lock:
            self.cache[key] = out
        return out

    def goto_aux(self, path, variant, defines):
        key = ("aux", path, variant, tuple(defines))
        with self._keylock(key):
            return self._goto_aux(path, variant, defines, key)

    def _goto_aux(self, path, variant, defines, key):
        with self.lock:
            if key in self.cache:
                return self.cache[key]
        h = hashlib.sha1(repr(key).encode()).hexdigest()[:12]
        out = os.path.join(self.scratch, "a_%s_%s.gb" % (os.path.basename(path).replace(".", "_"), h))
        flags = ["-std=c99", "-D__NO_CTYPE", "-DVERIF_CBMC", "-D_GNU_SOURCE"] + self.incs(variant) + ["-D" + d for d in defines]
        self._run(["goto-cc"] + flags + ["-c", path, "-o", out], "goto-cc " + path)
        with self.lock:
            self.cache[key] = out
        return out

    def link(self, q):
        objs = [self.goto_aux(os.path.join(HARNESS, q.harness), q.variant, q.defines)]
        for m in q.models:
            objs.append(self.goto_aux(os.path.join(MODELS, m), q.variant, q.defines))
        for u in q.units:
            objs.append(self.goto_unit(u, q.variant))
        h = hashlib.sha1(repr((q.name, objs)).encode()).hexdigest()[:12]
        out = os.path.join(self.scratch, "q_%s_%s.gb" % (re.sub(r"\W", "_", q.name), h))
        self._run(["goto-cc"] + objs + ["-o", out], "link " + q.name)
        return out


# --------------------------------------------------------------------------
# CBMC invocation
# --------------------------------------------------------------------------
def _limits(mem_gb):
    def f():
        lim = int(mem_gb * (1 << 30))
        resource.setrlimit(resource.RLIMIT_AS, (lim, lim))
        os.setsid()
    return f


def cbmc_cmd(q, gb, extra=()):
    cmd = ["cbmc", gb, "--function", q.func, "--unwind", str(q.unwind)]
    if q.unwindset:
        cmd += ["--unwindset", ",".join(q.unwindset)]
    cmd += CBMC_BASE_FLAGS + list(q.flags)
    if q.backend == "kissat":
        cmd += ["--external-sat-solver", "kissat"]
    elif q.backend == "cadical":
        cmd += ["--sat-solver", "cadical"]
    cmd += ["--json-ui", "--verbosity", "8"] + list(extra)
    return cmd


def run_proc(cmd, timeout, mem_gb, cwd=None):
    t0 = time.time()
    p = subprocess.Popen(cmd, stdout=subprocess.PIPE, stderr=subprocess.PIPE, preexec_fn=_limits(mem_gb), cwd=cwd)
    try:
        out, err = p.communicate(timeout=timeout)
        to = False
    except subprocess.TimeoutExpired:
        try:
            os.killpg(p.pid, signal.SIGKILL)
        except Exception:
            p.kill()
        out, err = p.communicate()
        to = True
    ru = resource.getrusage(resource.RUSAGE_CHILDREN)
    return p.returncode, out.decode("utf-8", "replace"), err.decode("utf-8", "replace"), to, time.time() - t0


def parse_cbmc_json(txt):
    try:
        d = json.loads(txt)
    except Exception:
        # try to repair truncated output
        return None
    res, status, msgs, solver_s, nvars, nclauses = [], None, [], 0.0, 0, 0
    for x in d:
        if "result" in x:
            res = x["result"]
        if "cProverStatus" in x:
            status = x["cProverStatus"]
        if "messageText" in x:
            msgs.append(x["messageText"])
            m = re.match(r"Runtime decision procedure: ([0-9.e+-]+)s", x["messageText"])
            if m:
                solver_s += float(m.group(1))
            m = re.match(r"(\d+) variables, (\d+) clauses", x["messageText"])
            if m:
                nvars = max(nvars, int(m.group(1)))
                nclauses = max(nclauses, int(m.group(2)))
    return {"result": res, "status": status, "msgs": msgs, "solver_s": solver_s, "nvars": nvars, "nclauses": nclauses}


# CBMC failure classes that do not correspond to native behaviour (DESIGN section 7)
def is_artefact(r, ptr_overflow_props=()):
    # CBMC reports the (defined) negative difference of two pointers into the same array as
    # overflow("-", T *, p, q); such properties are identified by their typed expression
    # (cbmc --show-properties) and dropped; integer overflow properties are kept.
    return r.get("property") in ptr_overflow_props


def pointer_typed_overflow_props(q, gb):
    cmd = ["cbmc", gb, "--function", q.func] + CBMC_BASE_FLAGS + list(q.flags) + ["--show-properties", "--json-ui"]
    rc, out, err, to, wall = run_proc(cmd, 120, 4)
    names = set()
    try:
        for x in json.loads(out):
            for p in x.get("properties", []):
                if p.get("class") == "overflow" and re.match(r'!overflow\("-", [^,]*\*,', p.get("expression", "")):
                    names.add(p["name"])
    except Exception:
        pass
    return names


def classify(q, parsed, ptr_props=()):
    """-> (status, failed[], witness_ok, n_props, n_ok, functions)"""
    failed, unknown, witness_ok, n_ok, funcs = [], [], False, 0, set()
    unwind_fail, model_fail = [], []
    for r in parsed["result"]:
        desc = r.get("description", "")
        sl = r.get("sourceLocation", {})
        f = sl.get("file", "")
        if f.startswith(REPO) or f.startswith("/repo"):
            funcs.add("%s:%s" % (os.path.relpath(f, REPO) if f.startswith(REPO) else f, sl.get("function", "?")))
        st = r["status"]
        if desc.startswith("WITNESS"):
            if st == "FAILURE":
                witness_ok = True
            continue
        if st == "SUCCESS":
            n_ok += 1
        elif st == "FAILURE":
            if is_artefact(r, ptr_props):
                n_ok += 1
                continue
            ent = (r["property"], desc, sl.get("file", ""), sl.get("line", ""), sl.get("function", ""))
            if "unwinding assertion" in desc or "recursion unwinding" in desc:
                unwind_fail.append(ent)
            elif desc.startswith("MODEL") or desc.startswith("no body for callee"):
                # the code left what the environment models cover (unmodelled libc call, unexpected stdio use, capacity of a
                # constant-size block): a limitation of the FRAMEWORK, never a violation => inconclusive
                model_fail.append(ent)
            else:
                failed.append(ent)
        else:
            unknown.append((r["property"], desc, st))
    n = len(parsed["result"])
    if model_fail:
        # results downstream of an unmodelled effect are not trustworthy either way
        return "model", model_fail, witness_ok, n, n_ok, sorted(funcs), unknown, unwind_fail
    if failed:
        return "fail", failed, witness_ok, n, n_ok, sorted(funcs), unknown, unwind_fail
    if unwind_fail:
        return "unwind", unwind_fail, witness_ok, n, n_ok, sorted(funcs), unknown, unwind_fail
    if unknown:
        return "inconclusive", [], witness_ok, n, n_ok, sorted(funcs), unknown, unwind_fail
    return "pass", [], witness_ok, n, n_ok, sorted(funcs), unknown, unwind_fail


def run_query(build, q):
    res = QResult(q=q)
    t0 = time.time()
    try:
        gb = build.link(q)
    except FrameworkError as e:
        res.status, res.detail = "error", str(e)
        return res
    res.gb = gb
    cmd = cbmc_cmd(q, gb)
    res.cmd = cmd
    rc, out, err, to, wall = run_proc(cmd, q.timeout, q.mem_gb)
    res.wall_s = round(time.time() - t0, 2)
    if to:
        res.status, res.detail = "inconclusive", "timeout after %ds" % q.timeout
        return res
    parsed = parse_cbmc_json(out)
    if parsed is None or parsed["status"] is None:
        tail = (out[-1500:] + err[-1500:])
        if "std::bad_alloc" in tail or "Out of memory" in tail or rc in (-9, 137, -6, 134):
            res.status, res.detail = "inconclusive", "out of memory (cap %.1f GB) rc=%s" % (q.mem_gb, rc)
        else:
            res.status, res.detail = "error", "cbmc produced no verdict rc=%s: %s" % (rc, tail)
        return res
    res.solver_s = parsed["solver_s"]
    res.sat_vars, res.sat_clauses = parsed["nvars"], parsed["nclauses"]
    st, failed, wok, n, n_ok, funcs, unknown, unwind_fail = classify(q, parsed)
    if any("arithmetic overflow on signed -" in f[1] for f in failed):
        st, failed, wok, n, n_ok, funcs, unknown, unwind_fail = classify(q, parsed, pointer_typed_overflow_props(q, gb))
    res.n_props, res.n_ok, res.witness_ok, res.functions = n, n_ok, wok, funcs
    res.failed = failed
    if q.expect == "finding":
        hit = [f for f in failed + unwind_fail if re.search(q.expect_re, f[1])]
        res.status = "finding-present" if hit else "finding-absent"
        res.detail = "; ".join("%s: %s" % (f[0], f[1]) for f in hit[:3])
        return res
    if st == "pass":
        if q.witness and not wok:
            res.status, res.detail = "error", "vacuity witness not reachable (assumptions unsatisfiable or harness end unreachable)"
        else:
            res.status = "pass"
    elif st == "fail":
        res.status = "fail"
        res.detail = "; ".join("%s: %s @%s:%s" % (f[0], f[1], os.path.basename(f[2]), f[3]) for f in failed[:4])
    elif st == "model":
        res.status = "inconclusive"
        res.detail = "the code left what the environment models cover: " + "; ".join("%s @%s:%s" % (f[1], os.path.basename(f[2]), f[3]) for f in failed[:3])
        res.failed = []
    elif st == "unwind":
        res.status = "unwind"
        res.detail = "unwinding assertion failed (bound %d too small or non-terminating loop): %s" % (
            q.unwind, "; ".join("%s @%s:%s" % (f[0], os.path.basename(f[2]), f[3]) for f in failed[:4]))
    else:
        res.status, res.detail = "inconclusive", "UNKNOWN statuses: %s" % (unknown[:3],)
    return res


# --------------------------------------------------------------------------
# Scheduler: run queries in parallel under a memory budget
# --------------------------------------------------------------------------
def run_all(build, queries, log):
    cv = threading.Condition()
    state = {"mem": 0.0, "procs": 0}
    results = [None] * len(queries)

    def work(i, q):
        with cv:
            while state["procs"] >= NCPU or (state["mem"] + q.mem_gb > MEM_BUDGET_GB and state["procs"] > 0):
                cv.wait()
            state["procs"] += 1
            state["mem"] += q.mem_gb
        try:
            r = run_query(build, q)
        except Exception as e:      # never let a worker die silently
            r = QResult(q=q, status="error", detail="runner exception: %r" % (e,))
        with cv:
            state["procs"] -= 1
            state["mem"] -= q.mem_gb
            cv.notify_all()
        results[i] = r
        log("  [%s] %-34s %-16s %6.1fs props=%d %s" % (time.strftime("%H:%M:%S"), q.name, r.status, r.wall_s, r.n_props, r.detail[:200]))

    order = sorted(range(len(queries)), key=lambda i: -queries[i].timeout * queries[i].weight)
    with ThreadPoolExecutor(max_workers=NCPU) as ex:
        for i in order:
            ex.submit(work, i, queries[i])
    return results


# --------------------------------------------------------------------------
# Counterexample extraction and native replay
# --------------------------------------------------------------------------
def _c_value(v):
    """CBMC JSON value -> C initializer text."""
    if "members" in v:
        return "{ " + ", ".join(".%s = %s" % (m["name"], _c_value(m["value"])) for m in v["members"]
                                if not m["name"].startswith("$pad")) + " }"
    if "elements" in v:
        return "{ " + ", ".join(_c_value(e["value"]) for e in v["elements"]) + " }"
    name = v.get("name")
    if name == "integer" or "binary" in v:
        b = v.get("binary")
        t = v.get("type", "")
        if b is None:
            return str(v.get("data", 0))
        n = int(b, 2)
        w = len(b)
        signed = not ("unsigned" in t or t in ("_Bool", "__CPROVER_size_t", "size_t")) and t != "char" or t in ("char", "signed char")
        if t == "_Bool":
            return str(n)
        if signed and n >= (1 << (w - 1)):
            n -= (1 << w)
        if w > 32:
            return "%d%s" % (n, "LL" if signed else "ULL")
        if n == -(1 << 31):
            return "(-2147483647-1)"
        return "%d%s" % (n, "" if signed else "u")
    if name == "pointer":
        return "0"
    if name == "boolean":
        return "1" if v.get("data") in (True, "TRUE", "true") else "0"
    if name == "unknown":
        return "0"
    return "0"


def extract_inputs(trace):
    """Last complete assignment to the harness input struct IN in a CBMC JSON trace."""
    last = None
    leaf = {}
    for s in trace:
        if s.get("stepType") != "assignment":
            continue
        lhs = s.get("lhs", "")
        if lhs == "IN" and "value" in s and "members" in s["value"]:
            last = s["value"]
            leaf = {}
    return last


def get_trace(build, q, gb, prop, timeout, mem_gb):
    cmd = cbmc_cmd(q, gb, extra=["--trace", "--property", prop])
    rc, out, err, to, wall = run_proc(cmd, timeout, mem_gb)
    if to:
        return None, "timeout fetching trace"
    parsed = parse_cbmc_json(out)
    if not parsed:
        return None, "no json"
    for r in parsed["result"]:
        if r["property"] == prop and r["status"] == "FAILURE" and "trace" in r:
            return r["trace"], ""
    return None, "property %s did not fail when checked alone" % prop


NATIVE_CFLAGS = ["-std=gnu99", "-g", "-O0", "-fno-omit-frame-pointer", "-fsanitize=address,undefined",
                 "-fno-sanitize-recover=undefined", "-fno-sanitize=nonnull-attribute,returns-nonnull-attribute", "-w", "-DREPLAY", "-D_GNU_SOURCE"]


def native_build(build, q, outdir):
    """Compile harness + models + real units natively (ASan+UBSan); returns path of binary."""
    incs = ["-I" + outdir] + build.incs(q.variant)
    objs = []
    srcs = [(os.path.join(HARNESS, q.harness), list(q.defines) + ["V_ENTRY=" + q.func], ())]
    for m in q.models:
        srcs.append((os.path.join(MODELS, m), list(q.defines), ()))
    for u in q.units:
        if isinstance(u, str):
            u = Unit(u)
        srcs.append((os.path.join(REPO, u.path), list(u.defines), u))
    for i, (src, defs, u) in enumerate(srcs):
        o = os.path.join(outdir, "o%d.o" % i)
        fl = NATIVE_CFLAGS + incs + ["-D" + d for d in defs] + ["-include", os.path.join(MODELS, "vlibc_native.h")]
        if u and isinstance(u, Unit):
            fl += build.unit_flags(u) + list(u.extra_flags)
            if u.sed:
                r = subprocess.run(["gcc", "-E"] + fl + [src], capture_output=True, text=True)
                if r.returncode != 0:
                    raise FrameworkError("native preprocess failed: " + r.stderr[-2000:])
                txt = r.stdout
                for ent in u.sed:
                    txt = re.sub(ent[0], ent[1], txt)
                pre = os.path.join(outdir, "pre%d.i" % i)
                open(pre, "w").write(txt)
                r = subprocess.run(["gcc"] + NATIVE_CFLAGS + ["-x", "cpp-output", "-c", pre, "-o", o], capture_output=True, text=True)
                if r.returncode != 0:
                    raise FrameworkError("native compile failed: " + r.stderr[-2000:])
                objs.append(o)
                continue
        r = subprocess.run(["gcc"] + fl + ["-c", src, "-o", o], capture_output=True, text=True)
        if r.returncode != 0:
            raise FrameworkError("native compile of %s failed: %s" % (src, r.stderr[-3000:]))
        objs.append(o)
    fo = os.path.join(outdir, "fallback.o")
    r = subprocess.run(["gcc"] + [f for f in NATIVE_CFLAGS if f != "-DREPLAY"] + ["-c", os.path.join(MODELS, "vnative_fallback.c"), "-o", fo], capture_output=True, text=True)
    if r.returncode != 0:
        raise FrameworkError("native compile of fallback failed: " + r.stderr[-2000:])
    objs.append(fo)
    exe = os.path.join(outdir, "replay.bin")
    r = subprocess.run(["gcc"] + NATIVE_CFLAGS + objs + ["-o", exe, "-lpthread", "-ldl"], capture_output=True, text=True)
    if r.returncode != 0:
        raise FrameworkError("native link failed: " + r.stderr[-3000:])
    for o in objs:
        try:
            os.unlink(o)
        except OSError:
            pass
    return exe


REPLAY_INPUTS = """/* generated: solver-chosen inputs for native replay (value of the harness input struct IN) */
#define V_IN_INIT %(init)s
"""


def replay(build, q, gb, failed, outroot, prop_id):
    """Replay failing properties natively (first one that reproduces wins). Returns dict(path, reproduced, how)."""
    ts = time.strftime("%Y%m%d-%H%M%S")
    path = os.path.join(outroot, "%s_%s_%s" % (prop_id, re.sub(r"\W", "_", q.name), ts))
    os.makedirs(path, exist_ok=True)
    info = {"path": path, "reproduced": False, "how": "", "query": q.name, "failed": failed[:6], "attempts": []}
    leaks = "--memory-leak-check" in q.flags
    shutil.copy(os.path.join(HARNESS, q.harness), path)
    json.dump({"query": dataclasses.asdict(q)}, open(os.path.join(path, "query.json"), "w"), indent=1, default=str)
    with open(os.path.join(path, "run.sh"), "w") as f:
        f.write("#!/bin/sh\n# re-run the native replay of this counterexample against /repo's current sources\n"
                "exec %s/bin/check %s --replay %s\n" % (VERIF, prop_id, path))
    os.chmod(os.path.join(path, "run.sh"), 0o755)
    # distinct failing properties, harness-level assertions first (they state the property), at most 4 attempts
    order = sorted(failed, key=lambda f: 0 if ".assertion." in f[0] else 1)
    for f in order[:4]:
        att = {"property": f[0], "description": f[1]}
        info["attempts"].append(att)
        trace, why = get_trace(build, q, gb, f[0], max(q.timeout, 120) * 2, q.mem_gb * 1.5)
        if not trace:
            att["how"] = "could not obtain trace: " + why
            continue
        val = extract_inputs(trace)
        if val is None:
            att["how"] = "trace has no assignment to IN"
            continue
        init = _c_value(val)
        open(os.path.join(path, "replay_inputs.h"), "w").write(REPLAY_INPUTS % {"init": init})
        steps = [s_ for s_ in trace if s_.get("stepType") in ("failure",)]
        open(os.path.join(path, "cbmc_failure.json"), "w").write(json.dumps(steps, indent=1)[:20000])
        try:
            exe = native_build(build, q, path)
        except FrameworkError as e:
            att["how"] = "native build failed: " + str(e)[:3000]
            continue
        rc, out = run_native(exe, leaks)
        open(os.path.join(path, "native_output.txt"), "w").write("exit=%s\n%s" % (rc, out[-20000:]))
        try:
            os.unlink(exe)
        except OSError:
            pass
        if rc == "timeout":
            att["reproduced"], att["how"] = True, "native run hangs"
        elif rc == 98:
            att["how"] = "native run left the assumed input domain (model/encoding mismatch)"
        elif rc != 0:
            att["reproduced"] = True
            m = re.search(r"(ERROR: AddressSanitizer: [^\n]*|ERROR: LeakSanitizer: [^\n]*|runtime error: [^\n]*|REPLAY-ASSERT-FAIL: [^\n]*)", out)
            att["how"] = m.group(1) if m else "native run exit=%s" % rc
        else:
            att["how"] = "native run completed cleanly (exit 0): counterexample not reproduced"
        if att.get("reproduced"):
            info.update(reproduced=True, how=att["how"], property=f[0], description=f[1], inputs=init[:4000])
            break
    if not info["reproduced"]:
        info["how"] = "; ".join("%s: %s" % (a_["property"], a_.get("how", "")) for a_ in info["attempts"])
    json.dump(info, open(os.path.join(path, "report.json"), "w"), indent=1)
    return info


# --------------------------------------------------------------------------
# Known findings
# --------------------------------------------------------------------------
def load_known_findings():
    kf = {"finding": [], "fixed": []}
    p = os.path.join(VERIF, "known_findings.txt")
    if not os.path.exists(p):
        return kf
    for line in open(p):
        line = line.strip()
        if not line or line.startswith("#"):
            continue
        m = re.match(r"finding: property=(\S+) key=(\S+) (.*)", line)
        if m:
            kf["finding"].append({"property": m.group(1), "key": m.group(2), "text": m.group(3)})
            continue
        m = re.match(r"fixed: property=(\S+) (\S+) (.*)", line)
        if m:
            kf["fixed"].append({"property": m.group(1), "commit": m.group(2), "text": m.group(3)})
    return kf


def finding_keys(prop):
    return [f["key"] for f in load_known_findings()["finding"] if f["property"] == prop]


# --------------------------------------------------------------------------
# Property driver
# --------------------------------------------------------------------------
def make_scratch():
    base = os.environ.get("TMPDIR", "/tmp")
    return tempfile.mkdtemp(prefix="verif_", dir=base)


def write_evidence(prop, tier, seed, results, extra, wall, violations, assumptions):
    ok = [r for r in results if r.status in ("pass", "finding-present", "finding-absent")]
    nontriv = [r for r in results if r.status == "pass" and (r.witness_ok or not r.q.witness)]
    samples = []
    for r in results[:60]:
        samples.append({
            "query": r.q.name, "harness": r.q.harness, "entry": r.q.func, "variant": r.q.variant,
            "units": [u if isinstance(u, str) else u.path for u in r.q.units],
            "bounds": r.q.bounds, "unwind": r.q.unwind, "unwindset": list(r.q.unwindset),
            "defines": list(r.q.defines), "backend": r.q.backend or "minisat",
            "status": r.status, "cbmc_properties": r.n_props, "cbmc_properties_ok": r.n_ok,
            "vacuity_witness_reached": r.witness_ok, "wall_s": r.wall_s, "solver_s": round(r.solver_s, 2),
            "sat_variables": r.sat_vars, "sat_clauses": r.sat_clauses,
            "detail": r.detail[:300],
        })
    funcs = sorted({f for r in results for f in r.functions})
    cov = {
        "evaluations": len(ok),
        "distinct_nontrivial": len({r.q.name for r in nontriv}),
        "rule": "one evaluation = one CBMC query (harness x partition of structural parameters) decided by the SAT "
                "solver over all values of the symbolic inputs inside the stated bound; a query counts as distinct and "
                "non-trivial when all its properties hold with unwinding assertions AND its vacuity witness "
                "(assert(0) at the end of the harness) is reachable",
        "samples": samples,
        "functions_encoded": funcs,
        "queries_total": len(results),
        "queries_inconclusive": [r.q.name for r in results if r.status in ("inconclusive", "unwind")],
        "queries_error": [r.q.name + ": " + r.detail[:200] for r in results if r.status == "error"],
        "cbmc_properties_checked": sum(r.n_props for r in results),
        "solver_time_s": round(sum(r.solver_s for r in results), 2),
        "query_wall_time_s": round(sum(r.wall_s for r in results), 2),
        "traces_validated_against_impl": extra.get("replays", 0),
        "exhaustive": False,
    }
    cov.update(extra.get("coverage", {}))
    ev = {
        "property_id": prop, "tier": tier, "seed": seed, "level": "model_checking",
        "coverage": cov, "assumptions": assumptions, "wall_s": round(wall, 2), "violations": violations,
        "repo_head": subprocess.run(["git", "-C", REPO, "rev-parse", "--short", "HEAD"], capture_output=True, text=True).stdout.strip(),
        "known_findings_reported": extra.get("known_findings", []),
        "tool": subprocess.run(["cbmc", "--version"], capture_output=True, text=True).stdout.strip(),
    }
    os.makedirs(os.path.join(VERIF, "evidence"), exist_ok=True)
    tmp = os.path.join(VERIF, "evidence", prop + ".json.tmp")
    json.dump(ev, open(tmp, "w"), indent=1)
    os.replace(tmp, os.path.join(VERIF, "evidence", prop + ".json"))


def drive(prop, tier, mod, only=None):
    """Run one property's queries. Returns process exit code."""
    t0 = time.time()
    seed = int(os.environ.get("VERIF_SEED", "0") or 0)
    scratch = make_scratch()
    out_lines = []

    def log(s):
        print(s, flush=True)

    rc = 0
    try:
        build = Build(scratch)
        kf_all = load_known_findings()
        kfs = [f for f in kf_all["finding"] if f["property"] == prop]
        keys = [f["key"] for f in kfs]
        ctx = {"tier": tier, "seed": seed, "build": build, "kf": keys, "scratch": scratch, "log": log}
        pre = getattr(mod, "pre", None)
        extra = {"coverage": {}, "replays": 0, "known_findings": []}
        pre_viol = []
        if pre:
            pv = pre(ctx)          # non-CBMC part (e.g. the Z3 encoding for C13); returns dict
            extra["coverage"].update(pv.get("coverage", {}))
            pre_viol = pv.get("violations", [])
            if pv.get("error"):
                raise FrameworkError(pv["error"])
        queries = mod.queries(ctx)
        if only:
            queries = [q for q in queries if re.search(only, q.name)]
        log("== %s tier=%s: %d queries, scratch=%s" % (prop, tier, len(queries), scratch))
        results = run_all(build, queries, log)
        violations, errors, inconcl = [], [], []
        replayroot = os.path.join(VERIF, "replays")
        for r in results:
            if r.status == "fail" or r.status == "unwind":
                info = replay(build, r.q, r.gb, r.failed, replayroot, prop)
                extra["replays"] += 1
                r.replay = info
                if info["reproduced"]:
                    violations.append((r, info))
                else:
                    inconcl.append("%s: solver counterexample (%s) not reproduced natively: %s [%s]" % (r.q.name, r.detail[:200], info["how"], info["path"]))
            elif r.status == "error":
                errors.append("%s: %s" % (r.q.name, r.detail))
            elif r.status == "inconclusive":
                inconcl.append("%s: %s" % (r.q.name, r.detail))
            elif r.status == "finding-present":
                f = [k for k in kfs if k["key"] == r.q.finding_key]
                txt = f[0]["text"] if f else r.q.finding_key
                line = "KNOWN-FINDING: property=%s %s" % (prop, txt)
                if line not in extra["known_findings"]:
                    extra["known_findings"].append(line)
        for v in pre_viol:
            violations.append((None, v))
        for line in extra["known_findings"]:
            log(line)
        assumptions = list(getattr(mod, "ASSUMPTIONS", []))
        write_evidence(prop, tier, seed, results, extra, time.time() - t0, len(violations), assumptions)
        if violations:
            for r, info in violations:
                log("VIOLATION property=%s replay=%s" % (prop, info["path"]))
                log("   query=%s how=%s" % (r.q.name if r else "pre", info.get("how", "")))
            rc = 1
        elif errors:
            for e in errors:
                log("FRAMEWORK-ERROR %s" % e[:1500])
            rc = 2
        elif inconcl:
            for e in inconcl:
                log("INCONCLUSIVE %s" % e[:600])
            rc = 2
        else:
            log("OK property=%s tier=%s queries=%d wall=%.1fs" % (prop, tier, len(results), time.time() - t0))
    except FrameworkError as e:
        log("FRAMEWORK-ERROR %s" % str(e)[:3000])
        rc = 2
    finally:
        if not os.environ.get("VERIF_KEEP_SCRATCH"):
            shutil.rmtree(scratch, ignore_errors=True)
    return rc


def _q_from_json(d):
    units = []
    for u in d.get("units", []):
        if isinstance(u, dict):
            units.append(Unit(u["path"], tuple(u.get("defines", ())), tuple(tuple(x) for x in u.get("sed", ())), tuple(u.get("extra_flags", ()))))
        else:
            units.append(u)
    kw = {k: v for k, v in d.items() if k in Q.__dataclass_fields__ and k != "units"}
    for k in ("defines", "models", "unwindset", "flags"):
        if k in kw:
            kw[k] = tuple(kw[k])
    return Q(units=units, **kw)


def run_native(exe, leaks=False):
    env = dict(os.environ, ASAN_OPTIONS="detect_leaks=%d:abort_on_error=0:exitcode=99" % (1 if leaks else 0), UBSAN_OPTIONS="print_stacktrace=1:halt_on_error=1")
    try:
        r = subprocess.run([exe], capture_output=True, text=True, timeout=20, env=env, errors="replace")
        return r.returncode, r.stdout + r.stderr
    except subprocess.TimeoutExpired:
        return "timeout", "native replay did not terminate within 20 s (hang)"


def rerun_replay(prop, mod, path):
    """check <id> --replay <dir>: rebuild the recorded counterexample against /repo's current sources and run it."""
    qj = json.load(open(os.path.join(path, "query.json")))["query"]
    q = _q_from_json(qj)
    scratch = make_scratch()
    try:
        build = Build(scratch)
        out = os.path.join(scratch, "rp")
        os.makedirs(out)
        shutil.copy(os.path.join(path, "replay_inputs.h"), out)
        exe = native_build(build, q, out)
        rc, txt = run_native(exe, "--memory-leak-check" in q.flags)
        print(txt[-6000:])
        if rc == 0:
            print("REPLAY: clean run (the recorded input no longer violates %s)" % prop)
            return 0
        print("REPLAY: reproduced (exit=%s)" % rc)
        print("VIOLATION property=%s replay=%s" % (prop, os.path.abspath(path)))
        return 1
    except FrameworkError as e:
        print("FRAMEWORK-ERROR " + str(e)[:3000])
        return 2
    finally:
        shutil.rmtree(scratch, ignore_errors=True)
