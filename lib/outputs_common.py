"""Shared query builders for the output-path harness (C04_outputs.c) used by C03, C04, C16, C17."""
from runner import Q, Unit

OUTNAMES = ["devlog", "devnull", "devtty", "file", "socket", "stderr", "stdout", "noop", "bogus"]

# scaled constants (preprocessed text only): PATH_MAX-sized path buffer and the 4096-byte error buffer are above
# CBMC's 1000-element flattening threshold (array theory => memory blow-up); the code is parametric in them.
SCALE_4096 = ((r"\b4096\b", "48"),)

UNITS = [
    "src/action/log-syscall-exec.c", "src/action/log-message-dispatch.c", "src/outputregistry.c", "src/genericregistry.c",
    Unit("src/output/fileoutput.c", sed=SCALE_4096), "src/output/devttyoutput.c", "src/output/devnulloutput.c",
    "src/output/socketoutput.c", "src/output/devlogoutput.c", "src/output/stdoutoutput.c", "src/output/stderroutput.c",
    "src/output/noopoutput.c", "src/message.c", "src/util/string.c", Unit("src/error.c", sed=SCALE_4096),
]
MODELS = ("vlibc.c", "vfs.c")

ASSUMPTIONS = [
    "environment = models/vfs.c: every fopen/fprintf/fclose/socket/connect/send/close may fail independently (all fault combinations in one query)",
    "stdio contract: data reaches the descriptor in one write() per flush only while it fits the stdio buffer of symbolic capacity B in [1,2^20]; stdout may be fully buffered, stderr is unbuffered",
    "PATH_MAX (fileoutput.c) and the error buffer (error.c) scaled 4096 -> 48 in the preprocessed text (CBMC array-theory threshold); message <= 5 bytes, output argument <= 5 bytes, ident <= 2 bytes, none containing '%' (format expansion is C05)",
    "filter verdict and message text symbolic (stubs for filtering / data source registry); configuration record built by the harness",
    "allocation failure outside the domain",
    "heap blocks have constant capacity 400 in this functional harness (overruns inside the slack are C02's queries with exact malloc)",
]


def out_query(sel, kf=(), prefix="out", extra_defines=(), timeout=600):
    name = OUTNAMES[sel]
    if sel == 0 and not any(d.startswith("PIDBITS") for d in extra_defines):
        extra_defines = tuple(extra_defines) + ("PIDBITS=10",)      # decimal rendering of the pid is solver-hard: 0..1023 in the quick tier
    return Q(name="%s_%s" % (prefix, name), harness="C04_outputs.c", units=UNITS, models=MODELS,
             defines=("OUTSEL=%d" % sel, "V_STR_CAP=16", "VL_MALLOC_CAP=400", "V_NCH=16", "VL_MEMCPY_LOOP=1") + tuple("KF_" + k for k in kf) + tuple(extra_defines),
             unwind=18, unwindset=("strncpy.0:110", "strlen.0:50", "strnlen.0:110", "v_copy_bounded.0:26", "strncmp.0:26", "send.0:30", "rec_is.0:30", "memcpy.0:30", "write.0:44"),
             flags=("--object-bits", "10"), timeout=timeout, mem_gb=6,
             bounds="output '%s'; message 0..5 arbitrary bytes (no '%%'), argument 0..5 bytes, any facility/level/pid, error logging on/off, pass or drop verdict, stdio buffer 1..2^20, every I/O call may fail" % name)
