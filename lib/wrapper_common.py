"""Shared query builder for the wrapper harness (C01_wrapper.c) used by C01 and C06."""
from runner import Q, Unit

BASE = ["src/entrypoint/execve-wrapper.c", "src/init-deinit.c", "src/inputdatastorage.c", "src/configuration.c",
        "src/datasource/cmdline.c", "src/datasource/filename.c"]
TS_EXTRA = ["src/tsrm.c", "src/util/list.c"]

ASSUMPTIONS = [
    "the logging action is a stub that records when it runs and reads the stored inputs the way data sources do (its verdict/output cannot influence the pass-through: it returns void); the real action path is covered by C04/C05/C07",
    "dlsym(RTLD_NEXT, name) returns a recorder standing for the real libc function (dlsym returning NULL is outside the domain)",
    "configuration file present or absent by symbolic choice (loader stubbed)",
    "two consecutive calls of symbolic kinds (execv/execve) from an arbitrary between-calls state: longer histories by induction on the asserted clean state",
    "TS variant: sequential pthread model (models/vthread.c), one thread",
]


def wq(name, variant, bufsz, slen=3, nvec=3, timeout=600):
    units = BASE + (TS_EXTRA if variant == "TS" else [])
    models = ("vlibc.c", "vthread.c") if variant == "TS" else ("vlibc.c",)
    return Q(name=name, harness="C01_wrapper.c", units=units, models=models, variant=variant,
             defines=("BUFSZ=%d" % bufsz, "SLEN=%d" % slen, "NVEC=%d" % nvec), unwind=max(nvec * (slen + 1) + 4, 14),
             flags=("--object-bits", "10"), timeout=timeout, mem_gb=6,
             bounds="%s build; two calls, each execv or execve; path NULL or 0..%d arbitrary bytes; argv/envp NULL or 0..%d strings of 0..%d arbitrary bytes; real function's return value and errno arbitrary ints; result buffer of cmdline/filename = %d bytes" % (
                 "thread-safe" if variant == "TS" else "non-thread-safe", slen, nvec, slen, bufsz))
